//! C07 — parse errors point at the first offending character.
//!
//! The oracle branches on the *real* result so that it never demands more than the sentence of
//! C07 that governs that result. Expected values are computed from what the seam *delivered*.
use super::corpus::{Corpus, EXTRA_DOCS};
use super::docgen::{gen_doc, Knobs};
use super::exec::{run, Obs, PErr, Real};
use super::faults::*;
use super::refpda::{self, AnomalyKind, PHASE_NAMES};
use super::tape::*;
use crate::kernel::rng::Rng;
use crate::kernel::runner::{Exec, Gen, Phase, Violation};
use crate::kernel::shrink::removal_ranges;
use crate::kernel::stats::Stats;
use crate::scenario::Scenario;

pub enum Judgement {
    Pass,
    /// outside C07's statement (verdict questions, panics, iterator-path stream failures): counted, never an alarm
    Note(&'static str),
    Violation(&'static str, String),
}

pub const RESULT_NAMES: [&str; 9] = ["Ok", "Unexpected", "Stream", "InvalidUtf8", "MissingLowSurrogate", "InvalidLowSurrogate", "InvalidUnicodeCodePoint", "panic", "spin"];
pub fn result_class(r: &Real) -> u8 {
    match r {
        Real::Ok { .. } => 0,
        Real::Err(e) => match e.err { PErr::Unexpected { .. } => 1, PErr::Stream { .. } => 2, PErr::InvalidUtf8 { .. } => 3, PErr::MissingLow { .. } => 4, PErr::InvalidLow { .. } => 5, PErr::InvalidCp { .. } => 6 },
        Real::Panic(_) => 7,
        Real::Spin => 8,
    }
}

/// Options of a run: entry points that take options run under the strict ones half of the time and
/// under each of the three relaxed combinations otherwise.
fn opts_for(entry: Entry, h: u64) -> (bool, bool) {
    if !entry.takes_options() { return (false, false); }
    match h % 6 { 0 => (true, false), 1 => (false, true), 2 => (true, true), _ => (false, false) }
}

/// Judge one parse (the unexpected-character, stream and UTF-8 clauses do not depend on the options; under
/// relaxed options the surrogate clause is judged against a superset of what may be reported). `probe_at`: event index whose model phase is wanted for the coverage matrix.
pub fn judge(sc: &StreamSc, obs: &Obs, probe_at: Option<usize>) -> (Judgement, Option<usize>, usize) {
    let d = sc.delivered();
    let m = refpda::run_model_with(&d.items, !sc.strict());
    let total = *m.offs.last().unwrap();
    let n = d.items.len();
    let decision = m.reject.map(|r| r.0).unwrap_or(n);
    let phase = probe_at.map(|k| refpda::phase_before(&d.items, k.min(n)));
    let boundary = |p: usize| m.offs.binary_search(&p).is_ok();
    if sc.target != Target::Value {
        // String / NumberBuf / bool / () parsed on their own: the property gives no grammar to measure a
        // viable prefix against, but three of its clauses need none — every offset is a character
        // boundary of the input, the reported character is the input character at the reported offset
        // (none exactly at the end), and a stream / UTF-8 error sits where the input stops
        let j = (|| {
            let e = match &obs.real { Real::Err(e) => e, Real::Ok { .. } => return Judgement::Pass, _ => return Judgement::Note("panic-or-spin (a C03 matter, not judged here)") };
            let mut offs = vec![e.position, e.span.0, e.span.1];
            match &e.err {
                PErr::Stream { p, .. } | PErr::Unexpected { p, .. } | PErr::InvalidUtf8 { p } => offs.push(*p),
                PErr::InvalidCp { s, e, .. } | PErr::MissingLow { s, e, .. } | PErr::InvalidLow { s, e, .. } => { offs.push(*s); offs.push(*e) }
            }
            for o in &offs { if !boundary(*o) { return Judgement::Violation("c07.offset_not_boundary", format!("{} (target {}): offset {} is not a character boundary of the delivered input (length {})", obs.real.describe(), sc.target.name(), o, total)); } }
            if e.span.0 > e.span.1 { return Judgement::Violation("c07.span_inverted", format!("{}: span start exceeds span end", obs.real.describe())); }
            match &e.err {
                PErr::Unexpected { p, c } => {
                    // (under a length profile with zero-length characters several characters sit at one offset)
                    let there: Vec<char> = d.items.iter().enumerate().filter(|(k, _)| m.offs[*k] == *p).map(|(_, it)| it.0).collect();
                    let ok = match c { Some(ch) => there.contains(ch), None => *p == total };
                    if !ok {
                        return Judgement::Violation("c07.unexpected_position", format!("target {}: reported Unexpected({}, {:?}) but the input character at offset {} is {:?} (input length {})", sc.target.name(), p, c, p, there, total));
                    }
                    if c.is_none() && *p != total { return Judgement::Violation("c07.unexpected_position", format!("target {}: reported Unexpected({}, None) but the input is {} bytes long", sc.target.name(), p, total)); }
                    if e.position != *p || e.span.0 != *p { return Judgement::Violation("c07.accessor_mismatch", format!("Unexpected({}, {:?}) but position()={} span()={}..{}", p, c, e.position, e.span.0, e.span.1)); }
                    Judgement::Pass
                }
                PErr::Stream { p, id } => match d.term {
                    Term::Fail(id2) if *p == total && *id == id2 => Judgement::Pass,
                    Term::Fail(id2) => Judgement::Violation("c07.stream_error_position", format!("target {}: stream failed (id {}) after {} bytes but Stream({}, {}) was reported", sc.target.name(), id2, total, p, id)),
                    _ => Judgement::Violation("c07.stream_error_position", format!("Stream({}, {}) reported but the stream did not fail", p, id)),
                },
                PErr::InvalidUtf8 { p } => match d.term {
                    Term::IllFormed if *p == total => Judgement::Pass,
                    Term::IllFormed => Judgement::Violation("c07.invalid_utf8_position", format!("target {}: first ill-formed sequence starts at byte {} but InvalidUtf8({}) was reported", sc.target.name(), total, p)),
                    _ => if sc.entry.bytes() { Judgement::Violation("c07.invalid_utf8_position", format!("InvalidUtf8({}) reported but the byte input is well-formed UTF-8", p)) } else { Judgement::Note("InvalidUtf8 on a character input") },
                },
                _ => Judgement::Pass,
            }
        })();
        return (j, phase, decision);
    }
    let j = (|| {
        let e = match &obs.real {
            Real::Panic(_) | Real::Spin => return Judgement::Note("panic-or-spin (a C03 matter, not judged here)"),
            Real::Ok { .. } => {
                return match d.term {
                    Term::IllFormed => Judgement::Violation("c07.illformed_utf8_accepted", format!("byte input is ill-formed UTF-8 at offset {} and no syntax error lies before it, but parsing returned Ok", total)),
                    Term::Fail(_) => Judgement::Note("Ok although the iterator failed (iterator-path stream failures are outside C07's statement)"),
                    Term::End => if m.accepting { Judgement::Pass } else { Judgement::Note("invalid text accepted (a C01 verdict question, not judged here)") },
                };
            }
            Real::Err(e) => e,
        };
        // every reported offset is a character boundary within the input
        let mut offs = vec![e.position, e.span.0, e.span.1];
        match &e.err {
            PErr::Stream { p, .. } | PErr::Unexpected { p, .. } | PErr::InvalidUtf8 { p } => offs.push(*p),
            PErr::InvalidCp { s, e, .. } | PErr::MissingLow { s, e, .. } | PErr::InvalidLow { s, e, .. } => { offs.push(*s); offs.push(*e) }
        }
        for o in &offs {
            if !boundary(*o) {
                return Judgement::Violation("c07.offset_not_boundary", format!("{}: offset {} is not a character boundary of the delivered input (length {})", obs.real.describe(), o, total));
            }
        }
        if e.span.0 > e.span.1 { return Judgement::Violation("c07.span_inverted", format!("{}: span start exceeds span end", obs.real.describe())); }
        match &e.err {
            PErr::Unexpected { p, c } => {
                let expected = match m.reject { Some((_, o, ch)) => (o, Some(ch)), None => (total, None) };
                if (*p, *c) != expected {
                    let how = match d.term { Term::End => "", Term::Fail(_) => " (where the stream failed)", Term::IllFormed => " (where the first ill-formed UTF-8 sequence starts: InvalidUtf8 was due)" };
                    return Judgement::Violation("c07.unexpected_position", format!("reported Unexpected({}, {:?}) but the longest viable prefix of the delivered input has length {} and the character there is {:?}{}", p, c, expected.0, expected.1, if m.reject.is_none() { how } else { "" }));
                }
                if e.position != *p || e.span.0 != *p {
                    return Judgement::Violation("c07.accessor_mismatch", format!("Unexpected({}, {:?}) but position()={} span()={}..{}", p, c, e.position, e.span.0, e.span.1));
                }
                if m.reject.is_none() {
                    match d.term {
                        Term::End => {}
                        Term::IllFormed => return Judgement::Violation("c07.illformed_utf8_masked", format!("byte input is ill-formed at offset {} with no syntax error strictly before it, but Unexpected({}, None) was reported instead of InvalidUtf8", total, p)),
                        Term::Fail(_) => return Judgement::Note("end-of-input reported where the iterator failed (iterator-path stream failures are outside C07's statement)"),
                    }
                }
                Judgement::Pass
            }
            PErr::Stream { p, id } => {
                match d.term {
                    Term::Fail(id2) => {
                        if *p != total || *id != id2 { return Judgement::Violation("c07.stream_error_position", format!("stream failed (id {}) after {} bytes but Stream({}, {}) was reported", id2, total, p, id)); }
                        if e.position != *p || e.span != (*p, *p) { return Judgement::Violation("c07.accessor_mismatch", format!("Stream({}, _) but position()={} span()={}..{}", p, e.position, e.span.0, e.span.1)); }
                        if let Some((_, o, ch)) = m.reject { return Judgement::Violation("c07.error_not_first", format!("Stream({}, {}) reported although the syntax error at offset {} ({:?}) lies strictly before it: the error does not point at the first offending character", p, id, o, ch)); }
                        Judgement::Pass
                    }
                    _ => Judgement::Violation("c07.stream_error_position", format!("Stream({}, {}) reported but the stream did not fail", p, id)),
                }
            }
            PErr::InvalidUtf8 { p } => {
                if !sc.entry.bytes() { return Judgement::Note("InvalidUtf8 on a character input"); }
                match d.term {
                    Term::IllFormed => {
                        if *p != total { return Judgement::Violation("c07.invalid_utf8_position", format!("first ill-formed sequence starts at byte {} but InvalidUtf8({}) was reported", total, p)); }
                        if e.position != *p || e.span != (*p, *p) { return Judgement::Violation("c07.accessor_mismatch", format!("InvalidUtf8({}) but position()={} span()={}..{}", p, e.position, e.span.0, e.span.1)); }
                        if let Some((_, o, ch)) = m.reject { return Judgement::Violation("c07.error_not_first", format!("InvalidUtf8({}) reported although the syntax error at offset {} ({:?}) lies strictly before the ill-formed sequence", p, o, ch)); }
                        Judgement::Pass
                    }
                    _ => Judgement::Violation("c07.invalid_utf8_position", format!("InvalidUtf8({}) reported but the byte input is well-formed UTF-8", p)),
                }
            }
            PErr::InvalidCp { .. } | PErr::MissingLow { .. } | PErr::InvalidLow { .. } => {
                let (s, en, kind) = match &e.err {
                    PErr::MissingLow { s, e, high } => (*s, *e, AnomalyKind::MissingLow(*high)),
                    PErr::InvalidLow { s, e, high, cp } => (*s, *e, AnomalyKind::InvalidLow(*high, *cp)),
                    PErr::InvalidCp { s, e, cp } => (*s, *e, AnomalyKind::InvalidCp(*cp)),
                    _ => unreachable!(),
                };
                let same_kind: Vec<_> = m.anomalies.iter().filter(|a| a.kind == kind).collect();
                if same_kind.is_empty() {
                    return Judgement::Violation("c07.surrogate_units", format!("{} matches no surrogate anomaly of the delivered input (anomalies before the first syntax error: {:?})", obs.real.describe(), m.anomalies));
                }
                let inside = |a: usize, b: usize| same_kind.iter().any(|an| an.start <= a && b <= an.end);
                if !inside(s, en) || !inside(e.span.0, e.span.1) || !inside(e.position, e.position) {
                    return Judgement::Violation("c07.surrogate_span", format!("{}: span does not lie inside the offending escape sequence(s) {:?}", obs.real.describe(), same_kind));
                }
                Judgement::Pass
            }
        }
    })();
    (j, phase, decision)
}

fn violation_of(j: &Judgement) -> Option<Violation> {
    match j { Judgement::Violation(id, m) => Some(Violation { check_id: id.to_string(), message: m.clone() }), _ => None }
}

/// Execute + judge + account. Shared by all C07 phases and by replay.
pub fn execute_c07(sc: &StreamSc, run: u64, st: &mut Stats, fault_kind: u8, fault_at: Option<usize>) -> Exec {
    let obs = run_real(sc);
    let (j, phase, decision) = judge(sc, &obs, fault_at);
    // a fault is "met" when it lies at or before the parser's decision point (+1 look-ahead)
    let met = match fault_at { Some(k) => k <= decision + 1, None => false };
    st.bump(if met { "runs_with_fault_met" } else if fault_at.is_some() { "runs_with_fault_beyond_decision_point" } else { "runs_fault_free" });
    if met { st.bump(kind_counter(fault_kind)); }
    st.cell(fault_kind, phase.unwrap_or(0) as u8, result_class(&obs.real));
    st.bump(entry_counter(sc.entry));
    if !sc.strict() {
        st.bump("runs_under_relaxed_options");
        if let Real::Err(e) = &obs.real { if matches!(e.err, PErr::InvalidCp { .. } | PErr::MissingLow { .. } | PErr::InvalidLow { .. }) { st.bump("surrogate_errors_judged_under_relaxed_options"); } }
    }
    if obs.polls > 0 { st.maxi("max_polls_past_decision_point", (obs.consumed.saturating_sub(decision)) as u64); st.maxi("max_polls_after_exhaustion", obs.polls_after_exhaustion as u64); }
    match &j {
        Judgement::Note(k) => st.note(k, run, || format!("{:?} -> {}", sc.to_json().get("text_readable"), obs.real.describe())),
        Judgement::Pass => st.bump("judged_pass"),
        Judgement::Violation(..) => st.bump("violations_seen"),
    }
    Exec { outcome: outcome_digest(&obs), digest: sc.digest(), nontrivial: met, violation: violation_of(&j) }
}

pub fn run_real(sc: &StreamSc) -> Obs { run(sc) }

pub fn outcome_digest(obs: &Obs) -> u64 {
    let mut d = crate::kernel::rng::Digest::default();
    d.str(&obs.real.describe()); d.usize(obs.polls); d.usize(obs.consumed); d.usize(obs.polls_after_exhaustion);
    d.finish()
}

pub fn kind_counter(k: u8) -> &'static str {
    const N: [&str; 15] = ["fault_met.none", "fault_met.Fail", "fault_met.End", "fault_met.Flip", "fault_met.Drop", "fault_met.Dup", "fault_met.Swap", "fault_met.Insert", "fault_met.Resume", "fault_met.ByteFlip", "fault_met.ByteCut", "fault_met.Splice", "fault_met.ByteSet", "fault_met.FailThenResume", "fault_met.BitFlip"];
    N[k as usize]
}
pub fn entry_counter(e: Entry) -> &'static str {
    match e {
        Entry::ParseWith => "entry.parse_with", Entry::Parse => "entry.parse", Entry::Utf8With => "entry.parse_utf8_with", Entry::Utf8 => "entry.parse_utf8",
        Entry::InfallibleWith => "entry.parse_infallible_with", Entry::Infallible => "entry.parse_infallible", Entry::Utf8InfallibleWith => "entry.parse_utf8_infallible_with",
        Entry::InfallibleUtf8 => "entry.parse_infallible_utf8", Entry::StrWith => "entry.parse_str_with", Entry::Str => "entry.parse_str", Entry::FromStr => "entry.from_str",
        Entry::SliceWith => "entry.parse_slice_with", Entry::Slice => "entry.parse_slice", Entry::ParseIn => "entry.parser_parse_in",
    }
}

// ------------------------------------------------------------------------------------------
// shrinking of stream scenarios (shared with C03)
// ------------------------------------------------------------------------------------------

pub fn stream_shrink_candidates(sc: &StreamSc) -> Vec<Scenario> {
    let mut out = vec![];
    // every candidate is a copy of the scenario: for a long one only the coarse removals (chunks of at
    // least 1/64 of it) are offered, the fine ones once it has become short — otherwise the list of a
    // 50 000-item document would hold 10^5 copies of it
    const FINE_BELOW: usize = 2000;
    let coarse = |n: usize| -> Vec<(usize, usize)> { removal_ranges(n).into_iter().filter(|(a, b)| n <= FINE_BELOW || (b - a) * 64 >= n).collect() };
    match &sc.src {
        Src::Events(evs) => {
            for (a, b) in coarse(evs.len()) {
                let mut v = evs.clone(); v.drain(a..b);
                out.push(StreamSc { src: Src::Events(v), ..sc.clone() });
            }
            // plain UTF-8 lengths
            if evs.iter().any(|e| matches!(e, Ev::Item(c, l) if *l as usize != c.len_utf8())) {
                let v = evs.iter().map(|e| match e { Ev::Item(c, _) => Ev::Item(*c, c.len_utf8() as u32), x => *x }).collect();
                out.push(StreamSc { src: Src::Events(v), ..sc.clone() });
            }
            // simpler characters
            for (i, e) in evs.iter().enumerate().take(if evs.len() <= FINE_BELOW { usize::MAX } else { 0 }) {
                if let Ev::Item(c, l) = e {
                    for r in ['a', '0', ' '] {
                        if *c != r && !c.is_ascii_alphanumeric() || (c.is_ascii_alphabetic() && *c != 'a' && r == 'a') || (c.is_ascii_digit() && *c != '0' && r == '0') {
                            let mut v = evs.clone(); v[i] = Ev::Item(r, *l);
                            out.push(StreamSc { src: Src::Events(v), ..sc.clone() });
                            break;
                        }
                    }
                }
            }
        }
        Src::Bytes(b) => {
            for (a, e) in coarse(b.len()) {
                let mut v = b.clone(); v.drain(a..e);
                out.push(StreamSc { src: Src::Bytes(v), ..sc.clone() });
            }
        }
    }
    if sc.entry.takes_options() && sc.opts != (false, false) {
        out.push(StreamSc { opts: (false, false), ..sc.clone() });
        out.push(StreamSc { opts: (sc.opts.0, false), ..sc.clone() });
        out.push(StreamSc { opts: (false, sc.opts.1), ..sc.clone() });
    }
    out.into_iter().filter(|c| c != sc).map(Scenario::Stream).collect()
}

// ------------------------------------------------------------------------------------------
// workload
// ------------------------------------------------------------------------------------------

/// Documents the sweeps run over: corpus (<= 2 KiB, UTF-8), hand-written extras, generated.
pub struct Docs {
    pub chars: Vec<(String, Vec<char>)>,
    pub bytes: Vec<(String, Vec<u8>)>,
    pub corpus_count: usize,
}

impl Docs {
    pub fn build(seed: u64, generated: usize, max_items: usize) -> Docs {
        let corpus = Corpus::load();
        let mut chars = corpus.char_docs(2048);
        let corpus_count = chars.len();
        for (i, d) in EXTRA_DOCS.iter().enumerate() { chars.push((format!("extra-{}", i), d.chars().collect())); }
        for i in 0..generated {
            let mut rng = Rng::for_run(seed, 0x0d0c, i as u64);
            let k = Knobs::draw(&mut rng, max_items);
            let mut d = gen_doc(&mut rng, &k);
            d.truncate(max_items * 2);
            chars.push((format!("gen-{}", i), d));
        }
        // two documents with a spine a little deeper than 64 levels (per-level parser state that wraps around)
        for i in 0..2u64 {
            let mut rng = Rng::for_run(seed, 0x0d0d, i);
            let depth = 64 + rng.urange(1, 6);
            chars.push((format!("spine-{}", i), super::docgen::gen_spine_doc(&mut rng, depth)));
        }
        let mut bytes = corpus.byte_docs(2048);
        for (n, d) in chars.iter().skip(corpus_count) { bytes.push((n.clone(), d.iter().collect::<String>().into_bytes())); }
        Docs { chars, bytes, corpus_count }
    }
}

/// Entries able to carry a character-level scenario with the given features.
fn entries_for(custom_len: bool, fail: bool) -> &'static [Entry] {
    match (custom_len, fail) {
        (true, true) => &[Entry::ParseWith, Entry::Parse],
        (true, false) => &[Entry::ParseWith, Entry::Parse, Entry::InfallibleWith, Entry::Infallible],
        (false, true) => &[Entry::ParseWith, Entry::Parse, Entry::Utf8With, Entry::Utf8],
        (false, false) => &[Entry::ParseWith, Entry::Parse, Entry::Utf8With, Entry::Utf8, Entry::InfallibleWith, Entry::Infallible, Entry::Utf8InfallibleWith, Entry::InfallibleUtf8, Entry::StrWith, Entry::Str, Entry::FromStr, Entry::SliceWith, Entry::Slice],
    }
}

fn mix(a: u64, b: u64) -> u64 { let mut x = a ^ b.wrapping_mul(0x9e37_79b9_7f4a_7c15); crate::kernel::rng::splitmix64(&mut x) }

/// Systematic single-fault sweep at character level: every document x every length profile x
/// every position x every fault kind (full alphabet for Flip/Insert).
pub struct CharSweep {
    pub docs: std::sync::Arc<Docs>,
    /// cumulative variant counts, one entry per (doc, profile)
    cum: Vec<u64>,
    profiles: Vec<usize>,
}

impl CharSweep {
    pub fn new(docs: std::sync::Arc<Docs>, profiles: Vec<usize>) -> Self {
        let mut cum = vec![0u64];
        for (_, d) in &docs.chars {
            for _ in &profiles { let last = *cum.last().unwrap(); cum.push(last + Self::variants(d.len())); }
        }
        CharSweep { docs, cum, profiles }
    }
    fn variants(n: usize) -> u64 {
        let a = ALPHABET.len() as u64; let n = n as u64;
        // clean + End@0..n-1 + Fail@0..=n + Insert@0..=n x A + Flip@0..n-1 x A + Drop + Dup + Swap
        1 + n + (n + 1) + (n + 1) * a + n * a + n + n + n.saturating_sub(1)
    }
    /// (kind, position, char index) of variant `j` of a document of `n` items
    fn decode(n: usize, mut j: u64) -> (u8, usize, usize) {
        let a = ALPHABET.len() as u64; let n64 = n as u64;
        if j < 1 { return (K_NONE, 0, 0); } j -= 1;
        if j < n64 { return (K_END, j as usize, 0); } j -= n64;
        if j < n64 + 1 { return (K_FAIL, j as usize, 0); } j -= n64 + 1;
        if j < (n64 + 1) * a { return (K_INSERT, (j / a) as usize, (j % a) as usize); } j -= (n64 + 1) * a;
        if j < n64 * a { return (K_FLIP, (j / a) as usize, (j % a) as usize); } j -= n64 * a;
        if j < n64 { return (K_DROP, j as usize, 0); } j -= n64;
        if j < n64 { return (K_DUP, j as usize, 0); } j -= n64;
        (K_SWAP, j as usize, 0)
    }
    fn locate(&self, run: u64) -> (usize, usize, u64) {
        let i = match self.cum.binary_search(&run) { Ok(i) => i, Err(i) => i - 1 };
        // skip empty groups that share the same cumulative value
        let mut i = i;
        while self.cum[i + 1] <= run { i += 1; }
        (i / self.profiles.len(), self.profiles[i % self.profiles.len()], run - self.cum[i])
    }
    pub fn build(&self, run: u64) -> (StreamSc, u8, Option<usize>) {
        let (di, profile, j) = self.locate(run);
        let doc = &self.docs.chars[di].1;
        let (kind, k, ci) = Self::decode(doc.len(), j);
        let salt = mix(di as u64, 77);
        let mut evs = to_events(doc, profile, salt);
        let c = ALPHABET[ci];
        let aux = match kind { K_FAIL => 7 + (j % 5) as u32, K_INSERT => len_of(profile, c, k, salt ^ 1), _ => 0 };
        let mut faults = vec![];
        if kind != K_NONE { faults.push(apply(&mut evs, kind, k, c, aux)); }
        let es = entries_for(profile != 0, kind == K_FAIL);
        let entry = es[(mix(run, 3) % es.len() as u64) as usize];
        let mut sc = StreamSc { entry, target: Target::Value, opts: opts_for(entry, mix(run, 11)), src: Src::Events(evs), faults, context: 0, hint: 0, reenter_at: 0, panic_at: 0 };
        sc.normalise();
        (sc, kind, if kind == K_NONE { None } else { Some(k) })
    }
}

impl Phase for CharSweep {
    fn name(&self) -> &'static str { "char-sweep" }
    fn id(&self) -> u64 { 0x701 }
    fn runs(&self) -> u64 { *self.cum.last().unwrap() }
    fn generate(&self, _seed: u64, run: u64) -> Gen { let (s, tag, at) = self.build(run); Gen { sc: Scenario::Stream(s), tag, at } }
    fn execute(&self, g: &Gen, run: u64, st: &mut Stats) -> Exec {
        match &g.sc { Scenario::Stream(s) => execute_c07(s, run, st, g.tag, g.at), _ => unreachable!() }
    }
    fn shrink_candidates(&self, sc: &Scenario) -> Vec<Scenario> { match sc { Scenario::Stream(s) => stream_shrink_candidates(s), _ => vec![] } }
    fn chunk(&self) -> u64 { 4096 }
}

/// Systematic single-fault sweep at byte level (byte-slice entry points).
pub struct ByteSweep {
    pub docs: std::sync::Arc<Docs>,
    cum: Vec<u64>,
}

impl ByteSweep {
    pub fn new(docs: std::sync::Arc<Docs>) -> Self {
        let mut cum = vec![0u64];
        for (_, d) in &docs.bytes { let last = *cum.last().unwrap(); cum.push(last + Self::variants(d.len()) + Self::byteset_variants(d)); }
        ByteSweep { docs, cum }
    }
    fn nsplice() -> u64 { (ILL_FORMED.len() + WELL_FORMED_NOTABLE.len()) as u64 }
    fn variants(m: usize) -> u64 { let m = m as u64; 1 + m + 8 * m + (m + 1) * Self::nsplice() }
    /// documents with multi-byte characters additionally get every byte replaced by all 256 values
    fn byteset_variants(d: &[u8]) -> u64 { if d.iter().any(|b| *b >= 0x80) && d.len() <= 512 { 256 * d.len() as u64 } else { 0 } }
    pub fn build(&self, run: u64) -> (StreamSc, u8, Option<usize>) {
        let mut i = match self.cum.binary_search(&run) { Ok(i) => i, Err(i) => i - 1 };
        while self.cum[i + 1] <= run { i += 1; }
        let mut j = run - self.cum[i];
        let mut b = self.docs.bytes[i].1.clone();
        let m = b.len() as u64;
        let (kind, k, aux) = if j < 1 { (K_NONE, 0, 0) } else {
            j -= 1;
            if j < m { (K_BYTECUT, j as usize, 0) } else {
                j -= m;
                if j < 8 * m { (K_BYTEFLIP, (j / 8) as usize, (j % 8) as u32) } else {
                    j -= 8 * m;
                    if j < (m + 1) * Self::nsplice() { (K_SPLICE, (j / Self::nsplice()) as usize, (j % Self::nsplice()) as u32) }
                    else { j -= (m + 1) * Self::nsplice(); (K_BYTESET, (j / 256) as usize, (j % 256) as u32) }
                }
            }
        };
        let mut faults = vec![];
        if kind != K_NONE { faults.push(apply_bytes(&mut b, kind, k, aux)); }
        let entry = if mix(run, 5) & 1 == 0 { Entry::SliceWith } else { Entry::Slice };
        (StreamSc { entry, target: Target::Value, opts: opts_for(entry, mix(run, 11)), src: Src::Bytes(b), faults, context: 0, hint: 0, reenter_at: 0, panic_at: 0 }, kind, if kind == K_NONE { None } else { Some(k) })
    }
}

/// For byte scenarios the fault position is a byte offset; convert to an item index of the delivered input.
fn byte_fault_item(sc: &StreamSc, at: Option<usize>) -> Option<usize> {
    let at = at?;
    let d = sc.delivered();
    let mut off = 0;
    for (i, (_, l)) in d.items.iter().enumerate() { if off + l > at { return Some(i); } off += l; }
    Some(d.items.len())
}

impl Phase for ByteSweep {
    fn name(&self) -> &'static str { "byte-sweep" }
    fn id(&self) -> u64 { 0x702 }
    fn runs(&self) -> u64 { *self.cum.last().unwrap() }
    fn generate(&self, _seed: u64, run: u64) -> Gen { let (s, tag, at) = self.build(run); let at = byte_fault_item(&s, at); Gen { sc: Scenario::Stream(s), tag, at } }
    fn execute(&self, g: &Gen, run: u64, st: &mut Stats) -> Exec {
        match &g.sc { Scenario::Stream(s) => execute_c07(s, run, st, g.tag, g.at), _ => unreachable!() }
    }
    fn shrink_candidates(&self, sc: &Scenario) -> Vec<Scenario> { match sc { Scenario::Stream(s) => stream_shrink_candidates(s), _ => vec![] } }
    fn chunk(&self) -> u64 { 4096 }
}

/// Positions with in-flight state, by model phase class.
pub fn interesting_positions(doc: &[char]) -> Vec<Vec<usize>> {
    let mut by_class: Vec<Vec<usize>> = vec![vec![]; PHASE_NAMES.len()];
    let mut pda = refpda::Pda::new();
    let mut off = 0;
    for (i, c) in doc.iter().enumerate() {
        by_class[pda.phase_class()].push(i);
        if !pda.step(*c, off, c.len_utf8()) { break; }
        off += c.len_utf8();
    }
    by_class[pda.phase_class()].push(doc.len());
    by_class
}

pub fn biased_position(rng: &mut Rng, doc: &[char]) -> usize {
    if doc.is_empty() { return 0; }
    if rng.chance(1, 2) { return rng.usize_below(doc.len() + 1); }
    if rng.chance(1, 8) { return doc.len() - rng.usize_below(2.min(doc.len()) + 1).min(doc.len()); }
    let classes = interesting_positions(doc);
    let nonempty: Vec<&Vec<usize>> = classes.iter().filter(|v| !v.is_empty()).collect();
    let cls = nonempty[rng.usize_below(nonempty.len())];
    cls[rng.usize_below(cls.len())]
}

/// Seeded multi-fault search on corpus and generated documents (up to large sizes), all entry
/// points, random delivery profiles.
pub struct Search {
    pub docs: std::sync::Arc<Docs>,
    pub runs: u64,
    pub max_items: usize,
}

impl Search {
    pub fn build(&self, seed: u64, run: u64) -> (StreamSc, u8, Option<usize>) {
        let mut rng = Rng::for_run(seed, self.id(), run);
        let doc: Vec<char> = if rng.chance(1, 3) { self.docs.chars[rng.usize_below(self.docs.chars.len())].1.clone() } else {
            let big = rng.chance(1, 50);
            if big && rng.chance(1, 2) {
                // a long document (thresholds of block-wise processing, position accounting far from the start)
                let target = if rng.chance(1, 10) { rng.urange(self.max_items, self.max_items * 8) } else { rng.urange(2000, self.max_items) };
                super::docgen::gen_big_doc(&mut rng, target)
            } else {
                if rng.chance(1, 25) {
                    let depth = *rng.pick(&[20usize, 63, 64, 65, 66, 100, 127, 128, 129, 200, 255, 256, 257, 300, 1000]);
                    super::docgen::gen_spine_doc(&mut rng, depth)
                } else {
                    let k = Knobs::draw(&mut rng, if big { self.max_items } else { 120 });
                    gen_doc(&mut rng, &k)
                }
            }
        };
        // swarm: a random subset of fault kinds is enabled in this run
        let all = [K_FAIL, K_END, K_FLIP, K_DROP, K_DUP, K_SWAP, K_INSERT, K_BITFLIP];
        let enabled: Vec<u8> = all.iter().copied().filter(|_| rng.chance(1, 2)).collect();
        let nf = if enabled.is_empty() { 0 } else { rng.weighted(&[1, 6, 3, 2, 1]) };
        let bytes_mode = rng.chance(1, 5);
        if bytes_mode {
            let mut b: Vec<u8> = doc.iter().collect::<String>().into_bytes();
            let mut faults = vec![]; let mut first: Option<(u8, usize)> = None;
            for _ in 0..nf.max(if rng.chance(3, 4) { 1 } else { 0 }) {
                let kind = *rng.pick(&[K_BYTEFLIP, K_BYTECUT, K_SPLICE, K_SPLICE, K_BYTESET]);
                let k = rng.usize_below(b.len() + 1);
                let aux = rng.below(256) as u32;
                faults.push(apply_bytes(&mut b, kind, k, aux));
                if first.map(|f| k < f.1).unwrap_or(true) { first = Some((kind, k.min(b.len()))); }
            }
            let entry = if rng.chance(1, 2) { Entry::SliceWith } else { Entry::Slice };
            let sc = StreamSc { entry, target: Target::Value, opts: opts_for(entry, rng.next_u64()), src: Src::Bytes(b), faults, context: 0, hint: 0, reenter_at: 0, panic_at: 0 };
            let at = byte_fault_item(&sc, first.map(|f| f.1));
            return (sc, first.map(|f| f.0).unwrap_or(K_NONE), at);
        }
        let profile = if rng.chance(1, 2) { 0 } else { rng.usize_below(N_LEN_PROFILES) };
        let salt = rng.next_u64();
        let mut evs = to_events(&doc, profile, salt);
        let mut faults = vec![]; let mut first: Option<(u8, usize)> = None; let mut has_fail = false;
        for _ in 0..nf {
            let kind = *rng.pick(&enabled);
            let k = biased_position(&mut rng, &doc).min(evs.len());
            let c = *rng.pick(ALPHABET);
            let aux = match kind { K_FAIL => rng.below(1000) as u32, K_INSERT => len_of(profile, c, k, salt ^ 1), _ => rng.below(64) as u32 };
            if matches!(kind, K_FAIL | K_END) {
                // a terminal event ends the tape: keep at most one, and keep it last
                if evs.iter().any(|e| !matches!(e, Ev::Item(..))) { continue; }
                has_fail |= kind == K_FAIL;
            } else if evs.iter().any(|e| !matches!(e, Ev::Item(..))) && k >= evs.len() - 1 { continue; }
            faults.push(apply(&mut evs, kind, k, c, aux));
            if first.map(|f| k < f.1).unwrap_or(true) { first = Some((kind, k)); }
        }
        let es = entries_for(profile != 0, has_fail);
        let entry = *rng.pick(es);
        // one run in ten parses a String / NumberBuf / bool / () on its own (judged by the grammar-free clauses)
        let target = if rng.chance(1, 10) { *rng.pick(&[Target::String, Target::Number, Target::Number, Target::Bool, Target::Unit]) } else { Target::Value };
        if target != Target::Value && rng.chance(3, 4) {
            let own: Vec<char> = match target {
                Target::String => { let mut o = vec![]; super::docgen::gen_string(&mut rng, &Knobs::draw(&mut Rng::new(run), 40), &mut o, 10); o }
                Target::Number => { let mut o = vec![]; let mut k = Knobs::draw(&mut Rng::new(run), 40); k.long_numbers = rng.chance(1, 2); super::docgen::gen_number(&mut rng, &k, &mut o); o }
                Target::Bool => rng.pick(&["true", "false", "tru", "falsee", "t", ""]).chars().collect(),
                _ => rng.pick(&["null", "nul", "nulll", "n", ""]).chars().collect(),
            };
            // a fault or two of the simplest kinds on the snippet: a character replaced, inserted (also in front), dropped
            let mut own = own;
            for _ in 0..rng.below(3) {
                let c = *rng.pick(ALPHABET);
                let k = if rng.chance(1, 3) { 0 } else { rng.usize_below(own.len() + 1) };
                match rng.below(3) { 0 => { if k < own.len() { own[k] = c; } else { own.push(c); } } 1 => own.insert(k.min(own.len()), c), _ => { if k < own.len() { own.remove(k); } } }
            }
            evs = to_events(&own, profile, salt);
            if has_fail { evs.push(Ev::Fail(rng.below(1000) as u32)); }
        }
        let mut sc = StreamSc { entry, target, opts: opts_for(entry, rng.next_u64()), src: Src::Events(evs), faults, context: 0, hint: 0, reenter_at: 0, panic_at: 0 };
        sc.truncate_after_terminal();
        sc.normalise();
        (sc, first.map(|f| f.0).unwrap_or(K_NONE), first.map(|f| f.1))
    }
}

impl Phase for Search {
    fn name(&self) -> &'static str { "seeded-search" }
    fn id(&self) -> u64 { 0x703 }
    fn runs(&self) -> u64 { self.runs }
    fn generate(&self, seed: u64, run: u64) -> Gen { let (s, tag, at) = self.build(seed, run); Gen { sc: Scenario::Stream(s), tag, at } }
    fn execute(&self, g: &Gen, run: u64, st: &mut Stats) -> Exec {
        match &g.sc { Scenario::Stream(s) => execute_c07(s, run, st, g.tag, g.at), _ => unreachable!() }
    }
    fn shrink_candidates(&self, sc: &Scenario) -> Vec<Scenario> { match sc { Scenario::Stream(s) => stream_shrink_candidates(s), _ => vec![] } }
}
