//! Deep-nesting scenarios for C03: executed in a child process, inside a thread with a small
//! fixed stack. The observation is the child's exit status.
use super::exec::{self, Real};
use super::tape::*;
use crate::kernel::json::J;
use crate::kernel::runner::Violation;
use std::io::Read;
use std::process::{Command, Stdio};
use std::time::{Duration, Instant};

#[derive(Clone, Debug, PartialEq)]
pub struct DeepSc {
    pub shape: String,
    pub depth: u64,
    pub stack_kib: u64,
    pub tail: String,
    /// level at which the tail strikes (levels opened, or levels closed for the *-out tails)
    pub tail_at: u64,
    /// "str" | "slice" | "iter"
    pub via: String,
    pub opts: (bool, bool),
    /// tail "generic": one fault of the stream seam at an absolute item index of the document text:
    /// (kind: fail | end | flip | insert | drop, position, character for flip/insert)
    pub fault: Option<(String, u64, char)>,
    /// shape "embedded": a small outer document with the placeholder U+0001 where the deep closed
    /// value goes (an element / member value somewhere inside it); with tail "generic-from-end" the
    /// fault position counts back from the end of the text (0 = after the last character)
    pub outer: Option<String>,
    /// shape "run": `outer` is a template and the placeholder is replaced by `depth` copies of this
    /// token (a long run of whitespace, digits, string characters, escapes, array elements, object
    /// members): stack use must not grow with the length of any run either
    pub unit: Option<String>,
}

pub const SHAPES: [&str; 6] = ["array-open", "array-closed", "object-open", "object-closed", "mixed-closed", "wide-closed"];
pub const TAILS: [&str; 16] = ["none", "end-in", "fail-in", "end-out", "fail-out", "wrong-closer", "garbage-after-root", "outer-garbage", "outer-missing-colon", "outer-end", "outer-fail", "fail-after-root", "ws-fail-after-root", "ws-garbage-after-root", "generic", "generic-from-end"];

impl DeepSc {
    pub fn to_json(&self) -> J {
        J::Obj(vec![
            ("shape".into(), J::from(self.shape.as_str())), ("depth".into(), J::UInt(self.depth)), ("stack_kib".into(), J::UInt(self.stack_kib)),
            ("tail".into(), J::from(self.tail.as_str())), ("tail_at".into(), J::UInt(self.tail_at)), ("via".into(), J::from(self.via.as_str())),
            ("options".into(), J::Arr(vec![J::Bool(self.opts.0), J::Bool(self.opts.1)])),
            ("fault".into(), match &self.fault { Some((k, p, c)) => J::Arr(vec![J::from(k.as_str()), J::UInt(*p), J::UInt(*c as u64)]), None => J::Null }),
            ("outer".into(), match &self.outer { Some(o) => J::Str(o.clone()), None => J::Null }),
            ("unit".into(), match &self.unit { Some(o) => J::Str(o.clone()), None => J::Null }),
        ])
    }
    pub fn from_json(j: &J) -> Result<DeepSc, String> {
        let s = |k: &str| j.get(k).and_then(J::as_str).map(String::from).ok_or_else(|| k.to_string());
        let u = |k: &str| j.get(k).and_then(J::as_u64).ok_or_else(|| k.to_string());
        let o = j.get("options").and_then(J::as_arr).ok_or("options")?;
        let fault = match j.get("fault").and_then(J::as_arr) {
            Some([k, p, c]) => Some((k.as_str().ok_or("fault kind")?.to_string(), p.as_u64().ok_or("fault pos")?, char::from_u32(c.as_u64().ok_or("fault char")? as u32).ok_or("fault char")?)),
            _ => None,
        };
        Ok(DeepSc { shape: s("shape")?, depth: u("depth")?, stack_kib: u("stack_kib")?, tail: s("tail")?, tail_at: u("tail_at")?, via: s("via")?,
            opts: (o.first().and_then(J::as_bool).unwrap_or(false), o.get(1).and_then(J::as_bool).unwrap_or(false)), fault,
            outer: j.get("outer").and_then(J::as_str).map(String::from), unit: j.get("unit").and_then(J::as_str).map(String::from) })
    }
    pub fn digest(&self) -> u64 {
        let mut d = crate::kernel::rng::Digest::default();
        d.str(&self.shape); d.u64(self.depth); d.u64(self.stack_kib); d.str(&self.tail); d.u64(self.tail_at); d.str(&self.via);
        if let Some((k, p, c)) = &self.fault { d.str(k); d.u64(*p); d.u64(*c as u64); }
        if let Some(o) = &self.outer { d.str(o); }
        if let Some(o) = &self.unit { d.str(o); }
        d.finish()
    }

    fn is_obj(&self, level: u64) -> bool {
        match self.shape.as_str() { "object-open" | "object-closed" => true, "mixed-closed" => level % 2 == 1, _ => false }
    }
    fn closed_shape(&self) -> bool { !self.shape.ends_with("-open") }

    /// The document text and whether the stream fails after it.
    pub fn text(&self) -> (String, bool) {
        if let (Some(template), Some(unit)) = (&self.outer, &self.unit) {
            let mut run = String::with_capacity(unit.len() * self.depth as usize);
            for _ in 0..self.depth { run.push_str(unit); }
            return (template.replacen('\u{1}', &run, 1), false);
        }
        if let Some(outer) = &self.outer {
            // the deep closed value (shape `self.shape`, no tail of its own) embedded in the outer document
            let inner = DeepSc { outer: None, unit: None, tail: "none".into(), fault: None, ..self.clone() }.text().0;
            return (outer.replacen('\u{1}', &inner, 1), false);
        }
        if let Some(code) = self.shape.strip_prefix("array-sib-").or_else(|| self.shape.strip_prefix("object-sib-")).or_else(|| self.shape.strip_prefix("mixed-sib-")) {
            // every level has siblings before and/or after the deep child: n = none, s = a scalar, c = a non-empty container
            let (pre, post) = (code.as_bytes().first().copied().unwrap_or(b'n'), code.as_bytes().get(1).copied().unwrap_or(b'n'));
            let n = self.depth;
            let obj = |lvl: u64| self.shape.starts_with("object") || (self.shape.starts_with("mixed") && lvl % 2 == 1);
            let mut s = String::with_capacity(n as usize * 24 + 8);
            for i in 0..n {
                if obj(i) { s.push('{'); match pre { b's' => s.push_str("\"p\":0,"), b'c' => s.push_str("\"p\":[0],"), _ => {} } s.push_str("\"k\":"); }
                else { s.push('['); match pre { b's' => s.push_str("0,"), b'c' => s.push_str("[0],"), _ => {} } }
            }
            s.push('1');
            for j in 0..n {
                let lvl = n - 1 - j;
                if obj(lvl) { match post { b's' => s.push_str(",\"q\":0"), b'c' => s.push_str(",\"q\":{\"c\":0}"), _ => {} } s.push('}'); }
                else { match post { b's' => s.push_str(",0"), b'c' => s.push_str(",[0]"), _ => {} } s.push(']'); }
            }
            return match self.tail.as_str() {
                "garbage-after-root" => { s.push_str(" x"); (s, false) }
                "fail-after-root" => (s, true),
                _ => (s, false),
            };
        }
        let n = self.depth;
        let wide = self.shape == "wide-closed";
        let mut s = String::with_capacity((n as usize) * 7 + 16);
        let t = self.tail_at.min(n);
        let outer = self.tail.starts_with("outer-");
        if outer { s.push_str(if self.tail == "outer-missing-colon" { "{\"a\":" } else { "[" }); }
        let open_levels = if matches!(self.tail.as_str(), "end-in" | "fail-in") { t } else { n };
        for i in 0..open_levels {
            if self.is_obj(i) { s.push_str("{\"k\":"); } else if wide { s.push_str("[0,"); } else { s.push('['); }
        }
        if matches!(self.tail.as_str(), "end-in" | "fail-in") { return (s, self.tail == "fail-in"); }
        if !self.closed_shape() { return (s, false); }
        s.push('1');
        let close_levels = if matches!(self.tail.as_str(), "end-out" | "fail-out" | "wrong-closer") { t } else { n };
        for j in 0..close_levels { let lvl = n - 1 - j; s.push(if self.is_obj(lvl) { '}' } else { ']' }); }
        match self.tail.as_str() {
            "end-out" => return (s, false),
            "fail-out" => return (s, true),
            "wrong-closer" => {
                if close_levels < n {
                    let lvl = n - 1 - close_levels;
                    s.push(if self.is_obj(lvl) { ']' } else { '}' });
                    for j in close_levels + 1..n { let lvl = n - 1 - j; s.push(if self.is_obj(lvl) { '}' } else { ']' }); }
                } else { s.push(']'); }
            }
            "garbage-after-root" => s.push_str(" x"),
            "ws-garbage-after-root" => s.push_str(" \n\t \r]"),
            "fail-after-root" => return (s, true),
            "ws-fail-after-root" => { s.push_str(" \n "); return (s, true); }
            "outer-garbage" => s.push_str(" x"),
            "outer-missing-colon" => s.push_str(",\"b\" 1}"),
            "outer-end" => {}
            "outer-fail" => return (s, true),
            _ => {}
        }
        (s, false)
    }
}

pub struct DeepOutcome {
    pub violation: Option<Violation>,
    pub kind: String,
    pub wall_s: f64,
}

/// Child side: parse (and, on success, traverse) inside a thread of `stack_kib` KiB.
pub fn child_main(json: &str) -> i32 {
    let sc = match J::parse(json).and_then(|j| DeepSc::from_json(&j)) { Ok(s) => s, Err(e) => { eprintln!("bad deep scenario: {}", e); return 2; } };
    let (text, fails) = sc.text();
    let stream_sc = if let (Some((kind, pos, c)), true) = (&sc.fault, sc.tail == "generic" || sc.tail == "generic-from-end") {
        // the generic tail: one stream fault at an absolute position of the (closed) document
        let mut evs: Vec<Ev> = text.chars().map(|c| Ev::Item(c, c.len_utf8() as u32)).collect();
        let k = if sc.tail == "generic-from-end" { evs.len().saturating_sub(*pos as usize) } else { (*pos as usize).min(evs.len()) };
        match kind.as_str() {
            "fail" => { evs.truncate(k); evs.push(Ev::Fail(9)); }
            "end" => { evs.truncate(k); }
            "flip" => { if k < evs.len() { evs[k] = Ev::Item(*c, c.len_utf8() as u32); } }
            "insert" => { evs.insert(k, Ev::Item(*c, c.len_utf8() as u32)); }
            "drop" => { if k < evs.len() { evs.remove(k); } }
            _ => {}
        }
        let mut s = StreamSc { entry: match sc.via.as_str() { "slice" => Entry::SliceWith, "str" if kind != "fail" => Entry::StrWith, _ => Entry::ParseWith }, target: Target::Value, opts: sc.opts, src: Src::Events(evs), faults: vec![], context: 0, hint: 0, reenter_at: 0, panic_at: 0 };
        if s.entry == Entry::SliceWith {
            let failed = matches!(&s.src, Src::Events(e) if matches!(e.last(), Some(Ev::Fail(_))));
            s.normalise();
            if failed { if let Src::Bytes(b) = &mut s.src { b.push(0xff); } }
        }
        s
    } else if let Some(entry) = Entry::from_name(&sc.via) {
        // `via` may name any of the 13 entry points
        let mut evs: Vec<Ev> = text.chars().map(|c| Ev::Item(c, c.len_utf8() as u32)).collect();
        if fails { evs.push(Ev::Fail(9)); }
        let mut s = StreamSc { entry, target: Target::Value, opts: sc.opts, src: Src::Events(evs), faults: vec![], context: 0, hint: 0, reenter_at: 0, panic_at: 0 };
        s.normalise();
        if fails && entry.bytes() { if let Src::Bytes(b) = &mut s.src { b.push(0xff); } }
        s
    } else { match sc.via.as_str() {
        // on the byte path a failing stream is an ill-formed byte
        "slice" => { let mut b = text.into_bytes(); if fails { b.push(0xff); } StreamSc { entry: Entry::SliceWith, target: Target::Value, opts: sc.opts, src: Src::Bytes(b), faults: vec![], context: 0, hint: 0, reenter_at: 0, panic_at: 0 } }
        "str" if !fails => StreamSc { entry: Entry::StrWith, target: Target::Value, opts: sc.opts, src: Src::Events(text.chars().map(|c| Ev::Item(c, c.len_utf8() as u32)).collect()), faults: vec![], context: 0, hint: 0, reenter_at: 0, panic_at: 0 },
        _ => {
            let mut evs: Vec<Ev> = text.chars().map(|c| Ev::Item(c, c.len_utf8() as u32)).collect();
            if fails { evs.push(Ev::Fail(9)); }
            StreamSc { entry: Entry::ParseWith, target: Target::Value, opts: sc.opts, src: Src::Events(evs), faults: vec![], context: 0, hint: 0, reenter_at: 0, panic_at: 0 }
        }
    } };
    std::panic::set_hook(Box::new(|_| {}));
    let stack = (sc.stack_kib as usize) * 1024;
    let h = std::thread::Builder::new().stack_size(stack).name("small-stack".into()).spawn(move || {
        let obs = exec::run(&stream_sc);
        // the scenario itself is big; free it here, not on a hot path
        drop(stream_sc);
        obs
    });
    let obs = match h { Ok(h) => match h.join() { Ok(o) => o, Err(_) => { println!("DEEP-RESULT kind=thread-panicked"); return 3; } }, Err(e) => { eprintln!("spawn: {}", e); return 2; } };
    match &obs.real {
        Real::Ok { fragments, traversed } => { println!("DEEP-RESULT kind=Ok fragments={} traversed={}", fragments, traversed); 0 }
        Real::Err(e) => { println!("DEEP-RESULT kind=Err variant={} position={}", e.err.variant(), e.position); 0 }
        Real::Panic(m) => { println!("DEEP-RESULT kind=panic message={}", m); 3 }
        Real::Spin => { println!("DEEP-RESULT kind=spin"); 3 }
    }
}

/// The binary deep children run from: the *unoptimised* build when it exists (a recursion that the
/// optimiser turns into a loop is still a recursion in every debug build of a user), otherwise this
/// binary. `VERIF_DEEP_PROFILE=release` forces the optimised one.
pub fn deep_child_exe() -> std::path::PathBuf {
    let me = std::env::current_exe().expect("current_exe");
    if std::env::var("VERIF_DEEP_PROFILE").map(|v| v == "release").unwrap_or(false) { return me; }
    let s = me.to_string_lossy().to_string();
    if let Some(i) = s.rfind("/release/") {
        let dbg = format!("{}/debug/{}", &s[..i], &s[i + "/release/".len()..]);
        if std::path::Path::new(&dbg).exists() { return dbg.into(); }
    }
    me
}

/// Parent side: run the scenario in a fresh child process and classify its exit status.
pub fn run_in_child(sc: &DeepSc, timeout: Duration) -> DeepOutcome {
    let t0 = Instant::now();
    let exe = deep_child_exe();
    let mut child = match Command::new(exe).arg("--deep-child").arg(sc.to_json().to_string_compact()).stdin(Stdio::null()).stdout(Stdio::piped()).stderr(Stdio::piped()).spawn() {
        Ok(c) => c,
        Err(e) => return DeepOutcome { violation: None, kind: format!("harness-error: spawn failed: {}", e), wall_s: 0.0 },
    };
    let status = loop {
        match child.try_wait() {
            Ok(Some(st)) => break Some(st),
            Ok(None) => {
                if t0.elapsed() > timeout { let _ = child.kill(); let _ = child.wait(); break None; }
                std::thread::sleep(Duration::from_millis(5));
            }
            Err(_) => break None,
        }
    };
    let mut out = String::new();
    let mut err = String::new();
    if let Some(mut o) = child.stdout.take() { let _ = o.read_to_string(&mut out); }
    if let Some(mut e) = child.stderr.take() { let _ = e.read_to_string(&mut err); }
    let wall_s = t0.elapsed().as_secs_f64();
    let err_tail: String = err.lines().rev().take(3).collect::<Vec<_>>().into_iter().rev().collect::<Vec<_>>().join(" | ");
    use std::os::unix::process::ExitStatusExt;
    match status {
        None => DeepOutcome { violation: Some(Violation { check_id: "c03.deep_timeout".into(), message: format!("child did not finish within {:?} ({})", timeout, sc.to_json().to_string_compact()) }), kind: "timeout".into(), wall_s },
        Some(st) => {
            if let Some(sig) = st.signal() {
                DeepOutcome { violation: Some(Violation { check_id: "c03.deep_stack_overflow".into(), message: format!("child died on signal {} while parsing/traversing depth {} inside a {} KiB stack: {}", sig, sc.depth, sc.stack_kib, err_tail) }), kind: format!("signal-{}", sig), wall_s }
            } else {
                match st.code() {
                    Some(0) => DeepOutcome { violation: None, kind: out.lines().find(|l| l.starts_with("DEEP-RESULT")).unwrap_or("").to_string(), wall_s },
                    Some(3) => DeepOutcome { violation: Some(Violation { check_id: "c03.deep_panic".into(), message: format!("{} {}", out.trim(), err_tail) }), kind: "panic".into(), wall_s },
                    c => DeepOutcome { violation: None, kind: format!("harness-error: child exit {:?}: {}", c, err_tail), wall_s },
                }
            }
        }
    }
}
