//! The repository's own test corpus, read from the current tree.
use std::path::Path;

pub struct Corpus {
    /// (file name, bytes), sorted by name
    pub files: Vec<(String, Vec<u8>)>,
}

pub const CORPUS_DIR: &str = "/repo/tests/inputs";

impl Corpus {
    pub fn load() -> Corpus {
        let mut files = vec![];
        if let Ok(rd) = std::fs::read_dir(Path::new(CORPUS_DIR)) {
            for e in rd.flatten() {
                let p = e.path();
                if p.extension().map(|x| x == "json").unwrap_or(false) {
                    if let Ok(b) = std::fs::read(&p) {
                        files.push((p.file_name().unwrap().to_string_lossy().into_owned(), b));
                    }
                }
            }
        }
        files.sort();
        Corpus { files }
    }

    /// Documents that are well-formed UTF-8 and at most `max` bytes, as character vectors.
    pub fn char_docs(&self, max: usize) -> Vec<(String, Vec<char>)> {
        self.files.iter().filter(|(_, b)| b.len() <= max).filter_map(|(n, b)| std::str::from_utf8(b).ok().map(|s| (n.clone(), s.chars().collect()))).collect()
    }

    pub fn byte_docs(&self, max: usize) -> Vec<(String, Vec<u8>)> {
        self.files.iter().filter(|(_, b)| b.len() <= max).cloned().collect()
    }
}

/// Hand-written documents that put faults next to in-flight state the corpus rarely has.
pub const EXTRA_DOCS: &[&str] = &[
    r#"{"a\ud800x":[1.5e+3,-0,{"k":"😀\udc00"},"\ud800\ud800","\ud800\n"],"b":null}"#,
    r#"["\ud83d\ude00","\uD83D\uDE00é€","\ud800"]"#,
    r#" { "k" : [ -0.0e-0 , 10E+2 , true , false , null , "" , {} , [] ] , "k" : "\"\\\/\b\f\n\r\t" } "#,
    r#"[[[[[[1]]]]],{"a":{"a":{"a":{}}}}]"#,
    "\"\\udbff\\udfff\\ud800\\udc00\"",
    "[\"\\ud800\",\"\\udc00\\ud800\",\"\\ud800\\u0041\"]",
    "123456789012345678901234567890.123456789012345678901234567890e-123",
    "\"é€😀\u{7f}\u{feff}\"",
    // numbers at the edges of every machine representation (the parser keeps them as text)
    "[0,-0,0.0,-0.0,0e0,1E+2,1e-2,9223372036854775807,9223372036854775808,-9223372036854775809,18446744073709551616,1e308,1e309,-1e-400,4.9e-324,0.1e1,123e45678901234567890]",
    // every escape whose value is itself a special character of some implementation: NUL, the replacement
    // character, non-characters, BOM, line separators
    "[\"\\u0000\\ufffd\\uFFFD\\ufffe\\uffff\\ufeff\\u2028\\u2029\\u007f\\u0080\", {\"\\ufffd\": \"\\ud7ff\\ue000\"}]",
];
