//! Fault kinds of the stream seam and how they rewrite a tape.
use super::tape::Ev;

/// Characters used for `Flip`/`Insert`: JSON-significant ones, boundary cases of every lexical
/// class, and multi-byte characters.
pub const ALPHABET: &[char] = &[
    '{', '}', '[', ']', ':', ',', '"', '\\', '/', '-', '+', '.', 'e', 'E', '0', '1', '2', '3', '4', '5', '6', '7', '8', '9', ' ', 't', 'f', 'n',
    'u', 'l', 's', 'r', 'a', 'b', '\t', '\n', '\r', '\u{0}', '\u{1f}', '\u{7f}', 'é', '€', '😀', '\u{feff}', 'D', 'd', 'c', 'C', 'x',
    // non-ASCII characters whose low byte is a significant ASCII character (space, LF, quote, '[', '{', ':', ',', '0', 'a', backslash):
    // a classification done on a truncated `c as u8` shows at once
    '\u{2020}', '\u{010a}', '\u{0122}', '\u{015b}', '\u{017b}', '\u{013a}', '\u{012c}', '\u{0130}', '\u{0161}', '\u{015c}',
    // characters that a Unicode-aware classification accepts where JSON means ASCII only: Unicode white space
    // (NBSP, EM SPACE, IDEOGRAPHIC SPACE, NEL), Unicode digits / numerics (ARABIC-INDIC THREE, FULLWIDTH ONE,
    // SUPERSCRIPT TWO), fullwidth 'e' and minus
    '\u{a0}', '\u{2003}', '\u{3000}', '\u{85}', '\u{0663}', '\u{ff11}', '\u{b2}', '\u{ff45}', '\u{ff0d}',
    // the edges of 128- and 256-entry lookup tables
    '\u{80}', '\u{ff}', '\u{100}',
];

pub const K_NONE: u8 = 0;
pub const K_FAIL: u8 = 1;
pub const K_END: u8 = 2;
pub const K_FLIP: u8 = 3;
pub const K_DROP: u8 = 4;
pub const K_DUP: u8 = 5;
pub const K_SWAP: u8 = 6;
pub const K_INSERT: u8 = 7;
pub const K_RESUME: u8 = 8;
pub const K_BYTEFLIP: u8 = 9;
pub const K_BYTECUT: u8 = 10;
pub const K_SPLICE: u8 = 11;
pub const K_BYTESET: u8 = 12;
pub const K_FAILRESUME: u8 = 13;
pub const K_BITFLIP: u8 = 14;
pub const FAULT_KIND_NAMES: [&str; 15] = [
    "none", "Fail", "End", "Flip", "Drop", "Dup", "Swap", "Insert", "Resume", "ByteFlip", "ByteCut", "Splice", "ByteSet", "FailThenResume", "BitFlip",
];

/// Ill-formed UTF-8 sequences spliced into byte inputs.
pub const ILL_FORMED: &[&[u8]] = &[
    &[0x80],                   // lone continuation
    &[0xbf],                   // lone continuation (high)
    &[0xc3],                   // truncated 2-byte lead (followed by whatever comes next)
    &[0xe2, 0x82],             // truncated 3-byte sequence
    &[0xf0, 0x9f, 0x98],       // truncated 4-byte sequence
    &[0xc0, 0xaf],             // overlong 2-byte form of '/'
    &[0xc1, 0x81],             // overlong 2-byte form of 'A'
    &[0xe0, 0x80, 0xaf],       // overlong 3-byte form of '/'
    &[0xe0, 0x9f, 0xbf],       // overlong 3-byte form (U+07FF)
    &[0xf0, 0x80, 0x80, 0xaf], // overlong 4-byte form of '/'
    &[0xf0, 0x8f, 0xbf, 0xbf], // overlong 4-byte form (U+FFFF)
    &[0xed, 0xa0, 0x80],       // encoded high surrogate U+D800
    &[0xed, 0xbf, 0xbf],       // encoded low surrogate U+DFFF
    &[0xf4, 0x90, 0x80, 0x80], // above U+10FFFF
    &[0xf5, 0x80, 0x80, 0x80], // invalid lead F5
    &[0xff],                   // invalid byte
    &[0xfe],                   // invalid byte
    &[0xc0, 0x80],             // overlong NUL
    &[0xef, 0xbb],             // truncated BOM
];

/// Well-formed but notable sequences (must *not* be reported as ill-formed).
pub const WELL_FORMED_NOTABLE: &[&[u8]] = &[
    &[0xef, 0xbb, 0xbf],       // BOM U+FEFF
    &[0xf4, 0x8f, 0xbf, 0xbf], // U+10FFFF
    &[0xed, 0x9f, 0xbf],       // U+D7FF (just below the surrogates)
    &[0xee, 0x80, 0x80],       // U+E000 (just above)
    &[0xc2, 0x80],             // U+0080 (smallest 2-byte)
    &[0xe0, 0xa0, 0x80],       // U+0800 (smallest 3-byte)
    &[0xf0, 0x90, 0x80, 0x80], // U+10000 (smallest 4-byte)
];

pub const N_LEN_PROFILES: usize = 6;
pub const LEN_PROFILE_NAMES: [&str; N_LEN_PROFILES] = ["utf8", "utf16-bytes", "fixed-1", "fixed-4", "pseudo-random-0..6", "one-GiB-per-character"];

/// Byte length reported for character `c` at index `idx` under a length profile.
#[inline]
pub fn len_of(profile: usize, c: char, idx: usize, salt: u64) -> u32 {
    match profile {
        0 => c.len_utf8() as u32,
        1 => 2 * c.len_utf16() as u32,
        2 => 1,
        3 => 4,
        // offsets leave the 32-bit range after four characters (an offset kept in a narrower integer shows)
        5 => 0x4000_0000,
        _ => {
            let mut x = (c as u64).wrapping_mul(0x9e37_79b9_7f4a_7c15) ^ (idx as u64).wrapping_mul(0xbf58_476d_1ce4_e5b9) ^ salt;
            x ^= x >> 31;
            x = x.wrapping_mul(0x94d0_49bb_1331_11eb);
            ((x >> 40) % 7) as u32
        }
    }
}

pub fn to_events(doc: &[char], profile: usize, salt: u64) -> Vec<Ev> {
    doc.iter().enumerate().map(|(i, c)| Ev::Item(*c, len_of(profile, *c, i, salt))).collect()
}

/// Apply one character-level fault at position `k`. Returns a short description.
pub fn apply(evs: &mut Vec<Ev>, kind: u8, k: usize, c: char, aux: u32) -> String {
    let n = evs.len();
    match kind {
        K_FAIL => { let k = k.min(n); evs.truncate(k); evs.push(Ev::Fail(aux)); format!("Fail@{}(id={})", k, aux) }
        K_END => { let k = k.min(n); evs.truncate(k); evs.push(Ev::End); format!("End@{}", k) }
        K_FLIP if n > 0 => { let k = k % n; if let Ev::Item(old, l) = evs[k] { evs[k] = Ev::Item(c, l); format!("Flip@{}({:?}->{:?})", k, old, c) } else { "Flip(skipped)".into() } }
        K_BITFLIP if n > 0 => {
            let k = k % n;
            if let Ev::Item(old, l) = evs[k] {
                let flipped = (old as u32) ^ (1 << (aux % 21));
                let nc = char::from_u32(flipped).unwrap_or('\u{fffd}');
                evs[k] = Ev::Item(nc, l);
                format!("BitFlip@{}({:?}->{:?})", k, old, nc)
            } else { "BitFlip(skipped)".into() }
        }
        K_DROP if n > 0 => { let k = k % n; evs.remove(k); format!("Drop@{}", k) }
        K_DUP if n > 0 => { let k = k % n; let e = evs[k]; evs.insert(k, e); format!("Dup@{}", k) }
        K_SWAP if n > 1 => { let k = k % (n - 1); evs.swap(k, k + 1); format!("Swap@{}", k) }
        K_INSERT => { let k = k.min(n); evs.insert(k, Ev::Item(c, if aux == u32::MAX { c.len_utf8() as u32 } else { aux })); format!("Insert@{}({:?})", k, c) }
        K_RESUME => { let k = k.min(n); evs.insert(k, Ev::End); format!("Resume(None@{}, stream goes on)", k) }
        K_FAILRESUME => { let k = k.min(n); evs.insert(k, Ev::Fail(aux)); format!("FailThenResume(Fail@{}, stream goes on)", k) }
        _ => "noop".into(),
    }
}

/// Apply one byte-level fault.
pub fn apply_bytes(b: &mut Vec<u8>, kind: u8, k: usize, aux: u32) -> String {
    let n = b.len();
    match kind {
        K_BYTEFLIP if n > 0 => { let k = k % n; b[k] ^= 1 << (aux % 8); format!("ByteFlip@{}(bit {})", k, aux % 8) }
        K_BYTESET if n > 0 => { let k = k % n; b[k] = aux as u8; format!("ByteSet@{}(0x{:02x})", k, aux as u8) }
        K_BYTECUT => { let k = k.min(n); b.truncate(k); format!("ByteCut@{}", k) }
        K_SPLICE => {
            let k = k.min(n);
            let all = ILL_FORMED.len() + WELL_FORMED_NOTABLE.len();
            let i = aux as usize % all;
            let seq: &[u8] = if i < ILL_FORMED.len() { ILL_FORMED[i] } else { WELL_FORMED_NOTABLE[i - ILL_FORMED.len()] };
            let tail = b.split_off(k);
            b.extend_from_slice(seq);
            b.extend_from_slice(&tail);
            format!("Splice@{}({:02x?})", k, seq)
        }
        _ => "noop".into(),
    }
}
