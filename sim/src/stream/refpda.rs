//! Reference model for C07: a viable-prefix recogniser for the RFC 8259 grammar, written from
//! the RFC and sharing no code with the parser under test. JSON is LL(1) with immediate error
//! detection, so "not yet rejected" == "still extensible to a valid text"; the first rejected
//! item ends the longest viable prefix. Any `\uXXXX` is syntactically fine here, as C07
//! stipulates; a separate layer records surrogate anomalies with the byte extents of the escape
//! sequences involved.

#[derive(Clone, Copy, PartialEq, Eq, Debug)]
pub enum Ctx { Arr, Obj }

#[derive(Clone, Copy, PartialEq, Eq, Debug)]
pub enum Num { Minus, Zero, Int, Dot, Frac, E, ESign, Exp }

#[derive(Clone, Copy, PartialEq, Eq, Debug)]
pub enum Esc { No, Backslash, Hex(u8) }

#[derive(Clone, Copy, PartialEq, Eq, Debug)]
pub enum Ph {
    /// a value must start here (`close`: `]` is also allowed — just after `[`)
    ValueStart { close: bool },
    /// a key must start here (`close`: `}` is also allowed — just after `{`)
    KeyStart { close: bool },
    AfterKey,
    AfterValue,
    Lit(&'static str, usize),
    Num(Num),
    Str { key: bool, esc: Esc },
}

/// Coarse phase classes for the coverage matrix.
pub const PHASE_NAMES: [&str; 12] = [
    "value-start", "after-open-bracket", "key-start", "after-key", "after-value", "after-root", "literal", "number",
    "string", "string-escape", "string-hex", "string-after-high-surrogate",
];

#[derive(Clone, Debug, PartialEq, Eq)]
pub enum AnomalyKind { MissingLow(u16), InvalidLow(u16, u32), InvalidCp(u32) }

/// A surrogate anomaly and the byte extent `[start, end)` of the escape sequence(s) at fault
/// (from the backslash of the first to the last hex digit of the last).
#[derive(Clone, Debug)]
pub struct Anomaly { pub kind: AnomalyKind, pub start: usize, pub end: usize }

pub struct Pda {
    pub stack: Vec<Ctx>,
    pub ph: Ph,
    cp: u32,
    esc_start: usize,
    /// pending high surrogate: (escape start, escape end, code unit)
    pending: Option<(usize, usize, u32)>,
    pub anomalies: Vec<Anomaly>,
    pub max_depth: usize,
    /// list also what a parse under relaxed options may report (see `element_done`)
    pub relaxed: bool,
}

fn ws(c: char) -> bool { matches!(c, ' ' | '\t' | '\n' | '\r') }
fn num_final(n: Num) -> bool { matches!(n, Num::Zero | Num::Int | Num::Frac | Num::Exp) }

impl Pda {
    pub fn new() -> Self {
        Pda { stack: vec![], ph: Ph::ValueStart { close: false }, cp: 0, esc_start: 0, pending: None, anomalies: vec![], max_depth: 0, relaxed: false }
    }

    /// Is the text consumed so far a complete JSON text?
    pub fn accepting(&self) -> bool {
        self.stack.is_empty() && match self.ph { Ph::AfterValue => true, Ph::Num(n) => num_final(n), _ => false }
    }

    pub fn phase_class(&self) -> usize {
        match self.ph {
            Ph::ValueStart { close: false } => 0,
            Ph::ValueStart { close: true } => 1,
            Ph::KeyStart { close: true } => 1,
            Ph::KeyStart { close: false } => 2,
            Ph::AfterKey => 3,
            Ph::AfterValue => if self.stack.is_empty() { 5 } else { 4 },
            Ph::Lit(..) => 6,
            Ph::Num(_) => 7,
            Ph::Str { esc: Esc::No, .. } => if self.pending.is_some() { 11 } else { 8 },
            Ph::Str { esc: Esc::Backslash, .. } => 9,
            Ph::Str { esc: Esc::Hex(_), .. } => 10,
        }
    }

    fn element_done(&mut self, cp: Option<u32>, start: usize, end: usize) {
        // cp: Some(code unit) for a \u escape, None for a raw character or a two-character escape
        let pend = self.pending.take();
        match (pend, cp) {
            (Some((hs, _he, high)), Some(cp)) => {
                if !(0xdc00..=0xdfff).contains(&cp) {
                    self.anomalies.push(Anomaly { kind: AnomalyKind::InvalidLow(high as u16, cp), start: hs, end });
                }
            }
            (Some((hs, he, high)), None) => self.anomalies.push(Anomaly { kind: AnomalyKind::MissingLow(high as u16), start: hs, end: he }),
            (None, Some(cp)) => {
                if (0xd800..=0xdbff).contains(&cp) { self.pending = Some((start, end, cp)); }
                else if (0xdc00..=0xdfff).contains(&cp) { self.anomalies.push(Anomaly { kind: AnomalyKind::InvalidCp(cp), start, end }); }
            }
            (None, None) => {}
        }
        if self.relaxed {
            // Under relaxed options a tolerated anomaly lets the parse go on, and what the next
            // escape then counts as is not documented. The list becomes a superset of what may
            // be reported: a high surrogate escape that follows a tolerated high surrogate may
            // be reported on its own as an invalid code point, or become the pending high
            // surrogate itself. Units and spans of whatever *is* reported stay checked.
            if let (Some(_), Some(cp)) = (pend, cp) {
                if (0xd800..=0xdbff).contains(&cp) {
                    self.anomalies.push(Anomaly { kind: AnomalyKind::InvalidCp(cp), start, end });
                    self.pending = Some((start, end, cp));
                }
            }
        }
    }

    /// Feed one item (`off`: its byte offset, `len`: its byte length). `false` = rejected.
    pub fn step(&mut self, c: char, off: usize, len: usize) -> bool {
        loop {
            match self.ph {
                Ph::ValueStart { close } => {
                    if ws(c) { return true; }
                    return match c {
                        '[' => { self.stack.push(Ctx::Arr); self.max_depth = self.max_depth.max(self.stack.len()); self.ph = Ph::ValueStart { close: true }; true }
                        '{' => { self.stack.push(Ctx::Obj); self.max_depth = self.max_depth.max(self.stack.len()); self.ph = Ph::KeyStart { close: true }; true }
                        ']' if close => { self.stack.pop(); self.ph = Ph::AfterValue; true }
                        '"' => { self.ph = Ph::Str { key: false, esc: Esc::No }; true }
                        't' => { self.ph = Ph::Lit("true", 1); true }
                        'f' => { self.ph = Ph::Lit("false", 1); true }
                        'n' => { self.ph = Ph::Lit("null", 1); true }
                        '-' => { self.ph = Ph::Num(Num::Minus); true }
                        '0' => { self.ph = Ph::Num(Num::Zero); true }
                        '1'..='9' => { self.ph = Ph::Num(Num::Int); true }
                        _ => false,
                    };
                }
                Ph::KeyStart { close } => {
                    if ws(c) { return true; }
                    return match c {
                        '"' => { self.ph = Ph::Str { key: true, esc: Esc::No }; true }
                        '}' if close => { self.stack.pop(); self.ph = Ph::AfterValue; true }
                        _ => false,
                    };
                }
                Ph::AfterKey => {
                    if ws(c) { return true; }
                    return if c == ':' { self.ph = Ph::ValueStart { close: false }; true } else { false };
                }
                Ph::AfterValue => {
                    if ws(c) { return true; }
                    return match (self.stack.last(), c) {
                        (Some(Ctx::Arr), ',') => { self.ph = Ph::ValueStart { close: false }; true }
                        (Some(Ctx::Arr), ']') => { self.stack.pop(); true }
                        (Some(Ctx::Obj), ',') => { self.ph = Ph::KeyStart { close: false }; true }
                        (Some(Ctx::Obj), '}') => { self.stack.pop(); true }
                        _ => false,
                    };
                }
                Ph::Lit(word, i) => {
                    return if word.as_bytes()[i] as char == c {
                        if i + 1 == word.len() { self.ph = Ph::AfterValue } else { self.ph = Ph::Lit(word, i + 1) }
                        true
                    } else { false };
                }
                Ph::Num(n) => {
                    let next = match (n, c) {
                        (Num::Minus, '0') => Some(Num::Zero),
                        (Num::Minus, '1'..='9') => Some(Num::Int),
                        (Num::Int, '0'..='9') => Some(Num::Int),
                        (Num::Zero | Num::Int, '.') => Some(Num::Dot),
                        (Num::Zero | Num::Int | Num::Frac, 'e' | 'E') => Some(Num::E),
                        (Num::Dot | Num::Frac, '0'..='9') => Some(Num::Frac),
                        (Num::E, '+' | '-') => Some(Num::ESign),
                        (Num::E | Num::ESign | Num::Exp, '0'..='9') => Some(Num::Exp),
                        _ => None,
                    };
                    match next {
                        Some(n) => { self.ph = Ph::Num(n); return true; }
                        None => { if num_final(n) { self.ph = Ph::AfterValue; continue; } else { return false; } }
                    }
                }
                Ph::Str { key, esc } => match esc {
                    Esc::No => {
                        if c == '"' {
                            if let Some((hs, he, high)) = self.pending.take() {
                                self.anomalies.push(Anomaly { kind: AnomalyKind::MissingLow(high as u16), start: hs, end: he });
                            }
                            self.ph = if key { Ph::AfterKey } else { Ph::AfterValue };
                            return true;
                        }
                        if c == '\\' { self.esc_start = off; self.ph = Ph::Str { key, esc: Esc::Backslash }; return true; }
                        if (c as u32) < 0x20 { return false; }
                        self.element_done(None, off, off + len);
                        return true;
                    }
                    Esc::Backslash => {
                        return match c {
                            '"' | '\\' | '/' | 'b' | 'f' | 'n' | 'r' | 't' => {
                                let s = self.esc_start;
                                self.element_done(None, s, off + len);
                                self.ph = Ph::Str { key, esc: Esc::No };
                                true
                            }
                            'u' => { self.cp = 0; self.ph = Ph::Str { key, esc: Esc::Hex(0) }; true }
                            _ => false,
                        };
                    }
                    Esc::Hex(i) => {
                        let d = match c {
                            '0'..='9' => c as u32 - '0' as u32,
                            'a'..='f' => c as u32 - 'a' as u32 + 10,
                            'A'..='F' => c as u32 - 'A' as u32 + 10,
                            _ => return false,
                        };
                        self.cp = self.cp << 4 | d;
                        if i == 3 {
                            let (s, cp) = (self.esc_start, self.cp);
                            self.element_done(Some(cp), s, off + len);
                            self.ph = Ph::Str { key, esc: Esc::No };
                        } else {
                            self.ph = Ph::Str { key, esc: Esc::Hex(i + 1) };
                        }
                        return true;
                    }
                },
            }
        }
    }
}

/// Result of running the model over a delivered input.
pub struct ModelRun {
    /// offsets of all item boundaries: `offs[k]` = offset of item k, `offs[n]` = total length
    pub offs: Vec<usize>,
    /// first rejected item: (index, offset, character)
    pub reject: Option<(usize, usize, char)>,
    /// model state after the last accepted item
    pub accepting: bool,
    pub anomalies: Vec<Anomaly>,
    pub max_depth: usize,
    /// phase class of the model at each item index *before* consuming it, up to the rejection
    /// (index n = at the terminal event); only filled when asked for
    pub phase_at_end: usize,
}

pub fn run_model(items: &[(char, usize)]) -> ModelRun { run_model_with(items, false) }

/// `relaxed`: the parse runs under options other than the strict ones.
pub fn run_model_with(items: &[(char, usize)], relaxed: bool) -> ModelRun {
    let mut pda = Pda::new();
    pda.relaxed = relaxed;
    let mut off = 0usize;
    let mut offs = Vec::with_capacity(items.len() + 1);
    let mut reject = None;
    for (k, &(c, l)) in items.iter().enumerate() {
        offs.push(off);
        if reject.is_none() && !pda.step(c, off, l) { reject = Some((k, off, c)); }
        off += l;
    }
    offs.push(off);
    ModelRun { offs, reject, accepting: reject.is_none() && pda.accepting(), phase_at_end: pda.phase_class(), max_depth: pda.max_depth, anomalies: pda.anomalies }
}

/// Phase class of the model just before item `k` (or at the end when `k == items.len()`).
pub fn phase_before(items: &[(char, usize)], k: usize) -> usize {
    let mut pda = Pda::new();
    let mut off = 0;
    for &(c, l) in &items[..k.min(items.len())] {
        if !pda.step(c, off, l) { return pda.phase_class(); }
        off += l;
    }
    pda.phase_class()
}
