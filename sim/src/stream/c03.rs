//! C03 — parsing is total, single-pass, and uses stack independent of nesting depth.
//!
//! The oracle is deliberately the weakest the statement supports (Ok | Err, no panic, bounded
//! polling, small fixed stack), so the fault space can be the widest. Reported positions are
//! never consulted here (a wrong offset is a C07 matter).
use super::c07::{biased_position, entry_counter, kind_counter, result_class, stream_shrink_candidates, Docs};
use super::deep::{run_in_child, DeepSc, SHAPES};
use super::docgen::{gen_doc, gen_soup, Knobs};
use super::exec::{run, Real};
use super::faults::*;
use super::tape::*;
use crate::kernel::rng::Rng;
use crate::kernel::runner::{Exec, Gen, Phase, Violation};
use crate::kernel::stats::Stats;
use crate::scenario::Scenario;
use std::sync::Arc;
use std::time::Duration;

pub fn judge_c03(obs: &super::exec::Obs) -> Option<Violation> {
    match &obs.real {
        Real::Panic(m) => Some(Violation { check_id: "c03.panic".into(), message: format!("parsing panicked: {}", m) }),
        Real::Spin => Some(Violation { check_id: "c03.spin".into(), message: format!("parser polled the stream {} times ({} after it was exhausted) without returning", obs.polls, obs.polls_after_exhaustion) }),
        _ => None,
    }
}

pub fn execute_c03(sc: &StreamSc, _run: u64, st: &mut Stats, kind: u8, at: Option<usize>) -> Exec {
    let obs = run(sc);
    let met = match at { Some(k) => !sc.entry.iterator() || k < obs.consumed + 1, None => false };
    st.bump(if met { "runs_with_fault_met" } else if at.is_some() { "runs_with_fault_beyond_last_pull" } else { "runs_fault_free" });
    if met { st.bump(kind_counter(kind)); }
    st.bump(entry_counter(sc.entry));
    st.bump(match sc.target { Target::Value => "target.Value", Target::String => "target.String", Target::Number => "target.NumberBuf", Target::Bool => "target.bool", Target::Unit => "target.unit" });
    st.bump(match (sc.entry.takes_options(), sc.opts) { (false, _) => "options.default", (true, (false, false)) => "options.strict", (true, (true, false)) => "options.truncated_surrogates_only", (true, (false, true)) => "options.invalid_codepoints_only", (true, (true, true)) => "options.flexible" });
    st.cell(kind, sc.target as u8, result_class(&obs.real));
    if sc.entry.iterator() {
        st.maxi("max_polls_after_exhaustion", obs.polls_after_exhaustion as u64);
        if let Src::Events(evs) = &sc.src {
            if let Some(first_end) = evs.iter().position(|e| !matches!(e, Ev::Item(..))) {
                if obs.consumed > first_end + 1 { st.bump("probe.parser_polled_past_a_None_or_Err_and_got_more"); }
            }
            if obs.consumed < evs.len() { st.bump("probe.parser_stopped_before_end_of_tape"); }
        }
    }
    Exec { outcome: super::c07::outcome_digest(&obs), digest: sc.digest(), nontrivial: met, violation: judge_c03(&obs) }
}

/// Seeded search: hostile streams of every kind through every entry point, option set and target.
pub struct C03Search {
    pub docs: Arc<Docs>,
    pub runs: u64,
    pub max_items: usize,
}

impl C03Search {
    pub fn build(&self, seed: u64, run: u64) -> (StreamSc, u8, Option<usize>) {
        let mut rng = Rng::for_run(seed, self.id(), run);
        let target = if rng.chance(7, 10) { Target::Value } else { *rng.pick(&ALL_TARGETS) };
        let opts = (rng.chance(1, 2), rng.chance(1, 2));
        let entry = *rng.pick(&ALL_ENTRIES);
        let base = rng.below(10);
        // random bytes straight into the byte path
        if entry.bytes() && base < 3 {
            let n = rng.urange(0, 64);
            let b: Vec<u8> = (0..n).map(|_| if rng.chance(1, 2) { *rng.pick(b"{}[]:,\"\\u0123456789-+.eEtrufalsn \n") } else { rng.below(256) as u8 }).collect();
            return (StreamSc { entry, target, opts, src: Src::Bytes(b), faults: vec!["random-bytes".into()], context: 0, hint: 0, reenter_at: 0, panic_at: 0 }, K_BYTESET, Some(0));
        }
        let doc: Vec<char> = match base {
            0..=2 => self.docs.chars[rng.usize_below(self.docs.chars.len())].1.clone(),
            3..=6 if rng.chance(1, 100) => { let target = if rng.chance(1, 10) { rng.urange(self.max_items, self.max_items * 8) } else { rng.urange(2000, self.max_items) }; super::docgen::gen_big_doc(&mut rng, target) }
            3..=6 if rng.chance(1, 40) => { let depth = *rng.pick(&[20usize, 63, 64, 65, 66, 100, 127, 128, 129, 200, 255, 256, 257, 300, 1000]); super::docgen::gen_spine_doc(&mut rng, depth) }
            3..=6 => { let big = rng.chance(1, 40); let mut k = Knobs::draw(&mut rng, if big { self.max_items } else { 100 }); k.anomalies = rng.chance(1, 2); if rng.chance(1, 10) { k.max_depth = 64; k.container_bias = 9; k.max_fanout = 1; } gen_doc(&mut rng, &k) }
            7 | 8 => { let n = rng.urange(0, 24); gen_soup(&mut rng, n) }
            _ => { let n = rng.urange(0, 16); (0..n).map(|_| char::from_u32(rng.below(0x11_0000) as u32).unwrap_or('\u{fffd}')).collect() }
        };
        // target-specific snippets so that String / NumberBuf / bool / () see their own syntax
        let doc = match target {
            Target::Value => doc,
            _ if rng.chance(1, 2) => doc,
            Target::String => { let mut o = vec![]; super::docgen::gen_string(&mut rng, &Knobs::draw(&mut Rng::new(run), 40), &mut o, 10); o }
            Target::Number => { let mut o = vec![]; let mut k = Knobs::draw(&mut Rng::new(run), 40); k.long_numbers = rng.chance(1, 2); super::docgen::gen_number(&mut rng, &k, &mut o); o }
            Target::Bool => rng.pick(&["true", "false", "tru", "falsee", "t", ""]).chars().collect(),
            Target::Unit => rng.pick(&["null", "nul", "nulll", "n", ""]).chars().collect(),
        };
        let profile = if rng.chance(1, 2) { 0 } else { rng.usize_below(N_LEN_PROFILES) };
        let salt = rng.next_u64();
        let mut evs = to_events(&doc, profile, salt);
        let all = [K_FAIL, K_END, K_FLIP, K_DROP, K_DUP, K_SWAP, K_INSERT, K_BITFLIP, K_RESUME, K_FAILRESUME];
        let enabled: Vec<u8> = all.iter().copied().filter(|_| rng.chance(1, 2)).collect();
        let nf = if enabled.is_empty() { 0 } else { rng.weighted(&[2, 6, 4, 2, 1, 1]) };
        let mut faults = vec![]; let mut first: Option<(u8, usize)> = None;
        for _ in 0..nf {
            let kind = *rng.pick(&enabled);
            let k = biased_position(&mut rng, &doc).min(evs.len());
            let c = if rng.chance(3, 4) { *rng.pick(ALPHABET) } else { char::from_u32(rng.below(0x11_0000) as u32).unwrap_or('\u{fffd}') };
            let aux = match kind { K_FAIL | K_FAILRESUME => rng.below(1000) as u32, K_INSERT => if rng.chance(1, 2) { u32::MAX } else { rng.below(9) as u32 }, _ => rng.below(64) as u32 };
            faults.push(apply(&mut evs, kind, k, c, aux));
            if first.map(|f| k < f.1).unwrap_or(true) { first = Some((kind, k)); }
        }
        let mut sc = StreamSc { entry, target, opts, src: Src::Events(evs), faults, context: if entry == Entry::ParseIn { rng.below(4) as u8 } else { 0 }, hint: if entry.iterator() { match rng.below(8) { 0 => 1, 1 => 2, _ => 0 } } else { 0 }, reenter_at: if entry.iterator() && rng.chance(1, 10) { 1 + rng.below(12) as u32 } else { 0 }, panic_at: if entry.iterator() && rng.chance(1, 12) { 1 + rng.below(16) as u32 } else { 0 } };
        if entry == Entry::FromStr { sc.target = Target::Value; }
        sc.normalise();
        if entry.bytes() && rng.chance(1, 2) {
            if let Src::Bytes(b) = &mut sc.src {
                let kind = *rng.pick(&[K_BYTEFLIP, K_BYTECUT, K_SPLICE, K_BYTESET]);
                let k = rng.usize_below(b.len() + 1);
                sc.faults.push(apply_bytes(b, kind, k, rng.below(256) as u32));
                if first.is_none() { first = Some((kind, 0)); }
            }
        }
        (sc, first.map(|f| f.0).unwrap_or(K_NONE), first.map(|f| f.1))
    }
}

impl Phase for C03Search {
    fn name(&self) -> &'static str { "hostile-stream-search" }
    fn id(&self) -> u64 { 0x301 }
    fn runs(&self) -> u64 { self.runs }
    fn generate(&self, seed: u64, run: u64) -> Gen { let (s, tag, at) = self.build(seed, run); Gen { sc: Scenario::Stream(s), tag, at } }
    fn execute(&self, g: &Gen, run: u64, st: &mut Stats) -> Exec { match &g.sc { Scenario::Stream(s) => execute_c03(s, run, st, g.tag, g.at), _ => unreachable!() } }
    fn shrink_candidates(&self, sc: &Scenario) -> Vec<Scenario> { match sc { Scenario::Stream(s) => stream_shrink_candidates(s), _ => vec![] } }
}

/// Every prefix and every single-byte edit (all 256 values) of every corpus document <= 2 KiB,
/// through the byte-slice entry points, option set chosen by position.
pub struct C03CorpusBytes {
    pub docs: Arc<Docs>,
    cum: Vec<u64>,
}

impl C03CorpusBytes {
    pub fn new(docs: Arc<Docs>) -> Self {
        let mut cum = vec![0u64];
        for (_, d) in docs.bytes.iter() { let last = *cum.last().unwrap(); cum.push(last + 1 + d.len() as u64 + 256 * d.len() as u64); }
        C03CorpusBytes { docs, cum }
    }
    fn build(&self, run: u64) -> (StreamSc, u8, Option<usize>) {
        let mut i = match self.cum.binary_search(&run) { Ok(i) => i, Err(i) => i - 1 };
        while self.cum[i + 1] <= run { i += 1; }
        let mut j = run - self.cum[i];
        let mut b = self.docs.bytes[i].1.clone();
        let m = b.len() as u64;
        let mut faults = vec![];
        let (kind, at) = if j == 0 { (K_NONE, None) } else {
            j -= 1;
            if j < m { faults.push(apply_bytes(&mut b, K_BYTECUT, j as usize, 0)); (K_BYTECUT, Some(j as usize)) }
            else { j -= m; faults.push(apply_bytes(&mut b, K_BYTESET, (j / 256) as usize, (j % 256) as u32)); (K_BYTESET, Some((j / 256) as usize)) }
        };
        let h = { let mut x = run.wrapping_mul(0x9e37_79b9_7f4a_7c15); crate::kernel::rng::splitmix64(&mut x) };
        let entry = if h & 1 == 0 { Entry::SliceWith } else { Entry::Slice };
        let opts = (h & 2 != 0, h & 4 != 0);
        (StreamSc { entry, target: Target::Value, opts, src: Src::Bytes(b), faults, context: 0, hint: 0, reenter_at: 0, panic_at: 0 }, kind, at)
    }
}

impl Phase for C03CorpusBytes {
    fn name(&self) -> &'static str { "corpus-prefixes-and-byte-edits" }
    fn id(&self) -> u64 { 0x302 }
    fn runs(&self) -> u64 { *self.cum.last().unwrap() }
    fn generate(&self, _seed: u64, run: u64) -> Gen { let (s, tag, at) = self.build(run); Gen { sc: Scenario::Stream(s), tag, at } }
    fn execute(&self, g: &Gen, run: u64, st: &mut Stats) -> Exec { match &g.sc { Scenario::Stream(s) => execute_c03(s, run, st, g.tag, g.at), _ => unreachable!() } }
    fn shrink_candidates(&self, sc: &Scenario) -> Vec<Scenario> { match sc { Scenario::Stream(s) => stream_shrink_candidates(s), _ => vec![] } }
    fn chunk(&self) -> u64 { 8192 }
}

/// Deep nesting in child processes with a small fixed stack.
pub struct C03Deep {
    pub runs: u64,
    pub thorough: bool,
}

impl C03Deep {
    pub fn build(&self, seed: u64, run: u64) -> DeepSc {
        let mut rng = Rng::for_run(seed, self.id(), run);
        // runs 54..72 and 89..98: every sibling combination once for arrays, objects and alternating
        // levels (success path: parse + traverse + count + volume)
        if (54..72).contains(&run) || (89..98).contains(&run) {
            let i = if run >= 89 { (run - 89 + 18) as usize } else { (run - 54) as usize };
            let codes = ["nn", "ns", "nc", "sn", "ss", "sc", "cn", "cs", "cc"];
            let shape = format!("{}-sib-{}", if i < 9 { "array" } else if i < 18 { "object" } else { "mixed" }, codes[i % 9]);
            return DeepSc { shape, depth: 100_000, stack_kib: 64, tail: "none".into(), tail_at: 0, via: "str".into(), opts: (false, false), fault: None, outer: None, unit: None };
        }
        // runs 72..80 and one random scenario in twelve: a *matrix* — a wide container of wide containers
        // (and one of three levels): work lists sized from one container's width while another's
        // children are still pending, and stack use that grows with width times width
        if (72..80).contains(&run) || (run >= 98 && rng.chance(1, 12)) {
            let fixed: [(bool, bool, u64, u64); 7] = [(false, false, 1000, 300), (false, true, 1000, 300), (true, false, 1000, 300), (true, true, 1000, 300), (false, false, 300, 1000), (true, true, 2000, 100), (false, false, 3000, 257)];
            let i = run.wrapping_sub(72) as usize;
            let (outer_obj, inner_obj, n1, n2) = if i < fixed.len() { fixed[i] } else { (rng.chance(1, 2), rng.chance(1, 2), *rng.pick(&[100u64, 300, 1000, 2500]), *rng.pick(&[65u64, 129, 257, 300, 1000])) };
            let three = i == 7 || (i >= 8 && rng.chance(1, 4));
            let row = |obj: bool, n: u64, leaf: &str| -> String {
                let mut s = String::new();
                s.push(if obj { '{' } else { '[' });
                for j in 0..n { if j > 0 { s.push(','); } if obj { s.push_str("\"k\":"); } s.push_str(leaf); }
                s.push(if obj { '}' } else { ']' });
                s
            };
            let inner = if three { let cell = row(inner_obj, 40, "0"); row(!inner_obj, (n2 / 8).max(8), &cell) } else { row(inner_obj, n2, "0") };
            let (template, unit) = if outer_obj { ("{\u{1}\"z\":0}".to_string(), format!("\"k\":{},", inner)) } else { ("[\u{1}0]".to_string(), format!("{},", inner)) };
            return DeepSc { shape: "run".into(), depth: if three { n1.min(300) } else { n1 }, stack_kib: *rng.pick(&[64u64, 128, 256]), tail: "none".into(), tail_at: 0, via: (*rng.pick(&["str", "slice", "iter"])).to_string(), opts: (false, false), fault: None, outer: Some(template), unit: Some(unit) };
        }
        // runs 20..: every fixed run-template once (a long run of one token at each grammar position)
        if run >= 20 && ((run - 20) as usize) < RUN_TEMPLATES.len() {
            let (template, unit) = RUN_TEMPLATES[(run - 20) as usize];
            return DeepSc { shape: "run".into(), depth: 100_000, stack_kib: 64, tail: "none".into(), tail_at: 0, via: (*rng.pick(&["str", "slice", "iter"])).to_string(), opts: (false, false), fault: None, outer: Some(template.to_string()), unit: Some(unit.to_string()) };
        }
        // the first scenarios are fixed so that every shape x the critical tails are always present
        let fixed: &[(&str, &str)] = &[
            ("array-closed", "none"), ("array-open", "none"), ("object-closed", "none"), ("object-open", "none"), ("mixed-closed", "none"), ("wide-closed", "none"),
            ("array-closed", "garbage-after-root"), ("object-closed", "garbage-after-root"), ("array-closed", "outer-garbage"), ("mixed-closed", "outer-missing-colon"),
            ("array-closed", "wrong-closer"), ("object-closed", "end-out"), ("array-closed", "fail-out"), ("mixed-closed", "outer-fail"), ("object-closed", "outer-end"),
            ("array-closed", "end-in"), ("object-closed", "fail-in"), ("array-closed", "fail-after-root"), ("object-closed", "ws-fail-after-root"), ("mixed-closed", "ws-garbage-after-root"),
        ];
        let depths_quick: &[u64] = &[1_000, 10_000, 100_000, 300_000, 1_000_000];
        let depths_thorough: &[u64] = &[1_000, 10_000, 100_000, 300_000, 1_000_000, (1 << 20) + 1, 2_000_000, (1 << 21) + 1, (1 << 22) + 1];
        let (shape, tail) = if (run as usize) < fixed.len() { let f = fixed[run as usize]; (f.0.to_string(), f.1.to_string()) } else {
            let shape = rng.pick(&SHAPES).to_string();
            let tail = if shape.ends_with("-open") { "none".to_string() } else { rng.pick(&super::deep::TAILS).to_string() };
            (shape, tail)
        };
        // run 1 (array-open): one step past 2^22; runs 2, 3 (object-closed, object-open): one step past 2^21 — growth policies of the
        // explicit stack change at powers of two, and the largest one below the usual 2·10^6 is 2^20
        let depth = if run == 0 { 1_000_000 } else if run == 1 { (1 << 22) + 1 } else if (2..=3).contains(&run) { (1 << 21) + 1 } else if self.thorough { *rng.pick(depths_thorough) } else { *rng.pick(depths_quick) };
        let stack_kib = *rng.pick(&[64u64, 128, 256]);
        let tail_at = match rng.below(5) { 0 => depth / 2, 1 => depth.saturating_sub(1), 2 => 1.min(depth), 3 => depth, _ => rng.range(0, depth) };
        let needs_iter = tail.contains("fail");
        let via = if rng.chance(1, 3) {
            // any of the 13 entry points (those that cannot express a failing stream simply see the document end)
            rng.pick(&ALL_ENTRIES).name().to_string()
        } else if needs_iter { rng.pick(&["iter", "slice"]).to_string() } else { rng.pick(&["str", "slice", "iter"]).to_string() };
        let opts = (rng.chance(1, 4), rng.chance(1, 4));
        // half of the random scenarios use the generic tail: any single stream fault at a position
        // biased to the structural boundaries of the (closed) deep document
        let (tail, fault) = if (run as usize) >= fixed.len() && !shape.ends_with("-open") && rng.chance(1, 2) {
            let probe = DeepSc { shape: shape.clone(), depth, stack_kib, tail: "none".into(), tail_at: 0, via: via.clone(), opts, fault: None, outer: None, unit: None };
            let len = probe.text().0.chars().count() as u64;
            let open_len = len.saturating_sub(depth + 1); // closers are one character each, the leaf is one character
            let pos = match rng.below(12) {
                0 => 0, 1 => 1, 2 => open_len.saturating_sub(1), 3 => open_len, 4 => open_len + 1, 5 => open_len + 2, 6 => open_len + depth / 2,
                7 => len.saturating_sub(2), 8 => len.saturating_sub(1), 9 | 10 => len, _ => rng.range(0, len),
            };
            let kind = *rng.pick(&["fail", "end", "flip", "insert", "drop", "fail", "insert"]);
            let c = *rng.pick(&[']', '}', ',', ':', '[', '{', '"', 'x', ' ', '1', '\u{0}']);
            ("generic".to_string(), Some((kind.to_string(), pos, c)))
        } else { (tail, None) };
        let via = if fault.as_ref().map(|f| f.0 == "fail").unwrap_or(false) && via == "str" { "iter".to_string() } else { via };
        // a third of the random scenarios: the deep closed value is a member of a small outer
        // document, and a single fault strikes somewhere *after* it (or, rarely, anywhere)
        if (run as usize) >= fixed.len() && rng.chance(1, 3) {
            let outer = gen_outer(&mut rng);
            let suffix_len = outer.chars().count() - outer.chars().position(|c| c == '\u{1}').unwrap_or(0) - 1;
            let from_end = if rng.chance(5, 6) { rng.range(0, suffix_len as u64) } else { rng.range(0, suffix_len as u64 + depth) };
            let kind = *rng.pick(&["fail", "end", "flip", "insert", "drop", "insert", "flip"]);
            let c = *rng.pick(&[']', '}', ',', ':', '[', '{', '"', 'x', ' ', '1', '\u{0}']);
            let shape = rng.pick(&["array-closed", "object-closed", "mixed-closed", "wide-closed"]).to_string();
            let via = if kind == "fail" && via == "str" { "iter".to_string() } else { via };
            return DeepSc { shape, depth, stack_kib, tail: "generic-from-end".into(), tail_at: 0, via, opts, fault: Some((kind.to_string(), from_end, c)), outer: Some(outer), unit: None };
        }
        // an eighth of the random scenarios: siblings before / after the deep child at every level
        if (run as usize) >= fixed.len() && rng.chance(1, 8) {
            let shape = format!("{}-sib-{}{}", rng.pick(&["array", "object", "mixed"]), rng.pick(&["n", "s", "c"]), rng.pick(&["n", "s", "c"]));
            let tail = rng.pick(&["none", "none", "garbage-after-root", "fail-after-root"]).to_string();
            let via = if tail.contains("fail") && via == "str" { "iter".to_string() } else { via };
            return DeepSc { shape, depth: depth.min(300_000), stack_kib, tail, tail_at: 0, via, opts, fault: None, outer: None, unit: None };
        }
        // a fifth of the random scenarios: a long *run* of one token somewhere in a flat document
        if (run as usize) >= fixed.len() && rng.chance(1, 4) {
            let (unit, templates): (&str, &[&str]) = match rng.below(10) {
                0 | 1 | 2 => (*rng.pick(&[" ", "\n", "\t", "\r", " \n"]), &["\u{1}1", "1\u{1}", "[\u{1}1]", "[1\u{1}]", "[1,\u{1}2]", "[1\u{1},2]", "{\u{1}\"a\":1}", "{\"a\"\u{1}:1}", "{\"a\":\u{1}1}", "{\"a\":1\u{1}}", "{\"a\":1,\u{1}\"b\":2}", "{\"a\":1\u{1},\"b\":2}", "[\u{1}]", "{\u{1}}", "[[\u{1}],{\"k\"\u{1}:[\u{1}]}]"][..]),
                3 => ("7", &["1\u{1}", "[1.\u{1}]", "[1e\u{1}]", "{\"a\":-1\u{1}.5e+1\u{1}}", "0.\u{1}e-\u{1}"][..]),
                4 => (*rng.pick(&["a", "é", "😀", "\\n", "\\u00e9", "\\ud83d\\ude00", "\\\\"]), &["\"\u{1}\"", "{\"\u{1}\":1}", "[\"x\u{1}\",1]"][..]),
                5 | 6 => (*rng.pick(&["1,", "null,", "[],", "{},", "\"s\",", "[1],"]), &["[\u{1}1]", "{\"a\":[\u{1}0]}"][..]),
                7 | 8 => (*rng.pick(&["\"k\":1,", "\"\":[],", "\"k\":{\"k\":0},"]), &["{\u{1}\"z\":0}", "[{\u{1}\"z\":0}]"][..]),
                _ => (*rng.pick(&["\\ud800", "\\udc00", "\\ud800\\ud800"]), &["\"\u{1}\"", "{\"\u{1}\":0}"][..]),
            };
            let template = rng.pick(templates).to_string();
            let fault = if rng.chance(1, 2) { None } else { Some((rng.pick(&["fail", "end", "flip", "insert", "drop"]).to_string(), rng.range(0, 6), *rng.pick(&[']', '}', ',', ':', 'x', '"'])) ) };
            let via = if fault.as_ref().map(|f| f.0 == "fail").unwrap_or(false) && via == "str" { "iter".to_string() } else { via };
            let tail = if fault.is_some() { "generic-from-end" } else { "none" }.to_string();
            return DeepSc { shape: "run".into(), depth, stack_kib, tail, tail_at: 0, via, opts, fault, outer: Some(template), unit: Some(unit.to_string()) };
        }
        DeepSc { shape, depth, stack_kib, tail, tail_at, via, opts, fault, outer: None, unit: None }
    }
}

pub fn execute_deep(d: &DeepSc, st: &mut Stats, timeout: Duration) -> Exec {
    let out = run_in_child(d, timeout);
    st.bump("deep_child_runs");
    st.maxi("deep_max_depth", d.depth);
    st.maxi("deep_max_child_wall_ms", (out.wall_s * 1000.0) as u64);
    if out.kind.starts_with("harness-error") { st.note("deep child could not be run", 0, || out.kind.clone()); }
    st.bump(if out.violation.is_some() { "deep_child_violations" } else if out.kind.contains("kind=Ok") { "deep_child_ok" } else { "deep_child_err" });
    Exec { outcome: { let mut x = crate::kernel::rng::Digest::default(); x.str(&out.kind); x.finish() }, digest: d.digest(), nontrivial: d.depth >= 1000, violation: out.violation }
}

impl Phase for C03Deep {
    fn name(&self) -> &'static str { "deep-nesting-small-stack" }
    fn id(&self) -> u64 { 0x303 }
    fn runs(&self) -> u64 { self.runs }
    fn generate(&self, seed: u64, run: u64) -> Gen { Gen::plain(Scenario::Deep(self.build(seed, run))) }
    fn execute(&self, g: &Gen, _run: u64, st: &mut Stats) -> Exec {
        match &g.sc { Scenario::Deep(d) => execute_deep(d, st, Duration::from_secs(if self.thorough { 900 } else { 300 })), _ => unreachable!() }
    }
    fn shrink_candidates(&self, sc: &Scenario) -> Vec<Scenario> {
        match sc {
            Scenario::Deep(d) => {
                let mut out = vec![];
                for depth in [d.depth / 16, d.depth / 4, d.depth / 2, d.depth * 3 / 4] {
                    if depth >= 1 && depth < d.depth { out.push(Scenario::Deep(DeepSc { depth, tail_at: d.tail_at.min(depth), ..d.clone() })); }
                }
                if d.via != "str" && !d.tail.contains("fail") && d.fault.is_none() && false { out.push(Scenario::Deep(DeepSc { via: "str".into(), ..d.clone() })); }
                if d.opts != (false, false) { out.push(Scenario::Deep(DeepSc { opts: (false, false), ..d.clone() })); }
                if d.stack_kib < 256 { out.push(Scenario::Deep(DeepSc { stack_kib: 256, ..d.clone() })); }
                out
            }
            _ => vec![],
        }
    }
    fn sample_runs(&self) -> Vec<u64> { (0..self.runs.min(6)).collect() }
    fn chunk(&self) -> u64 { 1 }
}

/// A small outer document with exactly one placeholder (U+0001) in a value position.
pub fn gen_outer(rng: &mut Rng) -> String {
    fn small(rng: &mut Rng) -> &'static str {
        *rng.pick(&["1", "null", "\"s\"", "[]", "{}", "[1,2]", "{\"c\":1}", "[[1],{\"d\":[2]}]", "true", "-0.5e1"])
    }
    fn node(rng: &mut Rng, depth: u64, out: &mut String) {
        if depth == 0 { out.push('\u{1}'); return; }
        let n = rng.urange(1, 4);
        let hole = rng.usize_below(n);
        let obj = rng.chance(1, 2);
        out.push(if obj { '{' } else { '[' });
        for i in 0..n {
            if i > 0 { out.push(','); if rng.chance(1, 4) { out.push(' '); } }
            if obj { out.push('"'); out.push((b'a' + i as u8) as char); out.push_str("\":"); }
            if i == hole { node(rng, depth - 1, out) } else { out.push_str(small(rng)) }
        }
        out.push(if obj { '}' } else { ']' });
    }
    let mut out = String::new();
    let depth = rng.range(1, 3);
    node(rng, depth, &mut out);
    out
}

/// (template with placeholder U+0001, repeated token): each is run once with 100 000 repetitions in a 64 KiB stack.
pub const RUN_TEMPLATES: [(&str, &str); 34] = [
    // mixed character widths: every offset modulo any buffer size is reached by a multi-byte character
    ("\"\u{1}\"", "a😀"), ("\"\u{1}\"", "é😀a"), ("\"x\u{1}\"", "ab\\ud83d\\ude00"), ("{\"\u{1}\":0}", "€a😀"),
    ("\u{1}1", " "), ("1\u{1}", "\n"), ("[\u{1}1]", " "), ("[1\u{1}]", "\t"), ("[1,\u{1}2]", " "), ("[1\u{1},2]", "\r"), ("{\u{1}\"a\":1}", " "), ("{\"a\"\u{1}:1}", " "),
    ("{\"a\":\u{1}1}", "\n"), ("{\"a\":1\u{1}}", " "), ("{\"a\":1,\u{1}\"b\":2}", " "), ("{\"a\":1,\"b\"\u{1}:2}", "\t"), ("{\"a\":1\u{1},\"b\":2}", " "), ("[\u{1}]", " "), ("{\u{1}}", "\n"),
    ("1\u{1}", "7"), ("[1.\u{1}]", "7"), ("[1e\u{1}]", "7"), ("\"\u{1}\"", "a"), ("\"\u{1}\"", "😀"), ("\"\u{1}\"", "\\n"), ("\"\u{1}\"", "\\u00e9"), ("\"\u{1}\"", "\\ud83d\\ude00"),
    ("{\"\u{1}\":1}", "k"), ("[\u{1}1]", "1,"), ("[\u{1}1]", "[],"), ("[\u{1}1]", "{\"a\":[1]},"), ("{\u{1}\"z\":0}", "\"k\":1,"), ("{\u{1}\"z\":0}", "\"k\":{\"k\":[0]},"), ("[\"x\",\u{1}\"y\"]", " "),
];
