//! Runs the real parser (the system under test) on a stream scenario and normalises what it
//! answered. Nothing here judges anything.
use super::tape::*;
use json_syntax::parse::{Context, Error, Options, Parser};
use json_syntax::{CodeMap, NumberBuf, Parse, Value};
use std::panic::{catch_unwind, AssertUnwindSafe};

#[derive(Clone, Debug, PartialEq, Eq)]
pub enum PErr {
    Stream { p: usize, id: u32 },
    Unexpected { p: usize, c: Option<char> },
    InvalidCp { s: usize, e: usize, cp: u32 },
    MissingLow { s: usize, e: usize, high: u16 },
    InvalidLow { s: usize, e: usize, high: u16, cp: u32 },
    InvalidUtf8 { p: usize },
}

impl PErr {
    pub fn variant(&self) -> &'static str {
        match self {
            PErr::Stream { .. } => "Stream", PErr::Unexpected { .. } => "Unexpected", PErr::InvalidCp { .. } => "InvalidUnicodeCodePoint",
            PErr::MissingLow { .. } => "MissingLowSurrogate", PErr::InvalidLow { .. } => "InvalidLowSurrogate", PErr::InvalidUtf8 { .. } => "InvalidUtf8",
        }
    }
}

#[derive(Clone, Debug, PartialEq, Eq)]
pub struct RealErr {
    pub err: PErr,
    /// `Error::position()`
    pub position: usize,
    /// `Error::span()` as (start, end)
    pub span: (usize, usize),
}

#[derive(Clone, Debug, PartialEq, Eq)]
pub enum Real {
    Ok { fragments: usize, traversed: usize },
    Err(RealErr),
    Panic(String),
    /// the stream's watchdog fired: the parser kept polling
    Spin,
}

impl Real {
    pub fn kind(&self) -> &'static str {
        match self { Real::Ok { .. } => "Ok", Real::Err(e) => e.err.variant(), Real::Panic(_) => "panic", Real::Spin => "spin" }
    }
    pub fn describe(&self) -> String {
        match self {
            Real::Ok { fragments, traversed } => format!("Ok(code map {} entries, traverse {} fragments)", fragments, traversed),
            Real::Err(e) => format!("Err({:?}) position()={} span()={}..{}", e.err, e.position, e.span.0, e.span.1),
            Real::Panic(m) => format!("panic: {}", m),
            Real::Spin => "parser kept polling the stream (watchdog)".into(),
        }
    }
}

#[derive(Clone, Debug)]
pub struct Obs {
    pub real: Real,
    /// `next()` calls made on the simulated stream (0 for str/bytes entries)
    pub polls: usize,
    /// events of the scenario consumed by the parser
    pub consumed: usize,
    pub polls_after_exhaustion: usize,
}

fn conv<E>(e: Error<E>, id: impl FnOnce(E) -> u32) -> RealErr {
    let position = e.position();
    let sp = e.span();
    let span = (sp.start(), sp.end());
    let err = match e {
        Error::Stream(p, x) => PErr::Stream { p, id: id(x) },
        Error::Unexpected(p, c) => PErr::Unexpected { p, c },
        Error::InvalidUnicodeCodePoint(s, cp) => PErr::InvalidCp { s: s.start(), e: s.end(), cp },
        Error::MissingLowSurrogate(s, high) => PErr::MissingLow { s: s.start(), e: s.end(), high },
        Error::InvalidLowSurrogate(s, high, cp) => PErr::InvalidLow { s: s.start(), e: s.end(), high, cp },
        Error::InvalidUtf8(p) => PErr::InvalidUtf8 { p },
    };
    RealErr { err, position, span }
}

fn inf(e: Error) -> RealErr { conv(e, |x| match x {}) }

/// What the harness does with a successfully parsed target (inside the same small stack).
pub trait SimTarget: Parse {
    fn from_str_entry(s: &str) -> Result<(Self, Option<CodeMap>), Error>;
    /// Walk the result fragment by fragment; returns the number of fragments visited.
    fn walk(&self) -> usize;
    /// Dispose of the result without recursion in the harness.
    fn dispose(self);
}

impl SimTarget for Value {
    fn from_str_entry(s: &str) -> Result<(Self, Option<CodeMap>), Error> { s.parse::<Value>().map(|v| (v, None)) }
    fn walk(&self) -> usize {
        // every traversal-based accessor: traverse, count, volume
        let n = self.traverse().count();
        let values = self.volume();
        let counted = self.count(|_, f| f.is_value());
        // (fragment counts are reported, not judged: their meaning is C05's subject)
        let _ = (values, counted);
        // abandoned traversals: stopped half-way and deep inside, then dropped (dropping the iterator is
        // part of traversing; it must not cost stack proportional to the depth either)
        for stop in [n / 2, n.saturating_sub(2), 1] {
            let mut t = self.traverse();
            let _ = t.nth(stop);
            drop(t);
        }
        let _ = self.traverse().take(n / 3 + 1).filter(|(_, f)| f.is_entry()).count();
        // the same walk by hand through the public building block, `FragmentRef::sub_fragments()`, consumed
        // front to back, back to front and from both ends in turn: it has to end (the bound is generous:
        // the traversal above visited n fragments)
        for style in 0..3 {
            let limit = 4 * n + 64;
            let mut pushed = 0usize;
            let mut stack = vec![json_syntax::FragmentRef::Value(self)];
            while let Some(f) = stack.pop() {
                let mut it = f.sub_fragments();
                let mut turn = 0usize;
                loop {
                    let next = match style { 0 => it.next(), 1 => it.next_back(), _ => { turn += 1; if turn % 2 == 1 { it.next() } else { it.next_back() } } };
                    match next { Some(s) => { stack.push(s); pushed += 1; } None => break }
                    if pushed > limit { panic!("walking the value by hand through sub_fragments() (style {}) does not end: more than {} fragments where traverse() has {}", style, limit, n); }
                }
            }
        }
        n
    }
    fn dispose(self) { drop_iteratively(self) }
}
macro_rules! plain_target {
    ($($t:ty),*) => {$(
        impl SimTarget for $t {
            fn from_str_entry(s: &str) -> Result<(Self, Option<CodeMap>), Error> { <$t as Parse>::parse_str(s).map(|(v, m)| (v, Some(m))) }
            fn walk(&self) -> usize { 1 }
            fn dispose(self) {}
        }
    )*};
}
plain_target!(json_syntax::String, NumberBuf, bool, ());

/// Dropping a deep `Value` recurses in compiler-generated drop glue in the *caller*; that is
/// outside every claimed property, so the harness takes values apart with a work list.
pub fn drop_iteratively(v: Value) {
    let mut work = vec![v];
    while let Some(v) = work.pop() {
        match v {
            Value::Array(a) => work.extend(a),
            Value::Object(o) => work.extend(o.into_iter().map(|e| e.value)),
            _ => {}
        }
    }
}

fn go<T: SimTarget>(sc: &StreamSc, stream: &mut SimStream, text: &str, bytes: &[u8]) -> Result<(usize, usize), RealErr> {
    let o = Options { accept_truncated_surrogate_pair: sc.opts.0, accept_invalid_codepoints: sc.opts.1 };
    let id = |x: u32| x;
    let r: Result<(T, Option<CodeMap>), RealErr> = match sc.entry {
        Entry::ParseWith => T::parse_with(AsDecoded(stream), o).map(|(v, m)| (v, Some(m))).map_err(|e| conv(e, id)),
        Entry::Parse => T::parse(AsDecoded(stream)).map(|(v, m)| (v, Some(m))).map_err(|e| conv(e, id)),
        Entry::Utf8With => T::parse_utf8_with(AsChars(stream), o).map(|(v, m)| (v, Some(m))).map_err(|e| conv(e, id)),
        Entry::Utf8 => T::parse_utf8(AsChars(stream)).map(|(v, m)| (v, Some(m))).map_err(|e| conv(e, id)),
        Entry::InfallibleWith => T::parse_infallible_with(AsDecodedInf(stream), o).map(|(v, m)| (v, Some(m))).map_err(inf),
        Entry::Infallible => T::parse_infallible(AsDecodedInf(stream)).map(|(v, m)| (v, Some(m))).map_err(inf),
        Entry::Utf8InfallibleWith => T::parse_utf8_infallible_with(AsCharsInf(stream), o).map(|(v, m)| (v, Some(m))).map_err(inf),
        Entry::InfallibleUtf8 => T::parse_infallible_utf8(AsCharsInf(stream)).map(|(v, m)| (v, Some(m))).map_err(inf),
        Entry::StrWith => T::parse_str_with(text, o).map(|(v, m)| (v, Some(m))).map_err(inf),
        Entry::Str => T::parse_str(text).map(|(v, m)| (v, Some(m))).map_err(inf),
        Entry::FromStr => T::from_str_entry(text).map_err(inf),
        Entry::SliceWith => T::parse_slice_with(bytes, o).map(|(v, m)| (v, Some(m))).map_err(inf),
        Entry::Slice => T::parse_slice(bytes).map(|(v, m)| (v, Some(m))).map_err(inf),
        Entry::ParseIn => {
            let ctx = match sc.context { 1 => Context::Array, 2 => Context::ObjectKey, 3 => Context::ObjectValue, _ => Context::None };
            let mut parser = Parser::new_with(AsDecoded(stream), o);
            T::parse_in(&mut parser, ctx).map(|m| (m.into_value(), None)).map_err(|e| conv(e, id))
        }
    };
    r.map(|(v, m)| {
        let traversed = v.walk();
        let fragments = m.map(|m| m.len()).unwrap_or(traversed);
        v.dispose();
        (fragments, traversed)
    })
}

/// Execute the scenario against the real parser. Panics are contained and reported.
pub fn run(sc: &StreamSc) -> Obs {
    let empty: [Ev; 0] = [];
    let (evs, text, bytes): (&[Ev], String, &[u8]) = match &sc.src {
        Src::Events(evs) => {
            let text = if sc.entry.iterator() { String::new() } else { evs.iter().filter_map(|e| if let Ev::Item(c, _) = e { Some(*c) } else { None }).collect() };
            (&evs[..], text, &[][..])
        }
        Src::Bytes(b) => (&empty[..], String::new(), &b[..]),
    };
    let mut stream = SimStream::with_hint(evs, if sc.entry.iterator() { sc.hint } else { 0 }).reentering_at(if sc.entry.iterator() { sc.reenter_at as usize } else { 0 }).panicking_at(if sc.entry.iterator() { sc.panic_at as usize } else { 0 });
    let res = catch_unwind(AssertUnwindSafe(|| match sc.target {
        Target::Value => go::<Value>(sc, &mut stream, &text, bytes),
        Target::String => go::<json_syntax::String>(sc, &mut stream, &text, bytes),
        Target::Number => go::<NumberBuf>(sc, &mut stream, &text, bytes),
        Target::Bool => go::<bool>(sc, &mut stream, &text, bytes),
        Target::Unit => go::<()>(sc, &mut stream, &text, bytes),
    }));
    let real = match res {
        Ok(Ok((fragments, traversed))) => Real::Ok { fragments, traversed },
        Ok(Err(e)) => Real::Err(e),
        Err(payload) => {
            if payload.is::<SpinDetected>() { Real::Spin }
            else if payload.is::<StreamPanicked>() {
                // the caller's iterator panicked (not the parser's fault); the library must be usable afterwards
                let after = catch_unwind(AssertUnwindSafe(|| {
                    let good = Value::parse_str("{\"a\":[1,{\"b\":null}],\"c\":\"\\u00e9\"}").is_ok();
                    let bad = Value::parse_str("[1,{\"b\":}").is_err();
                    good && bad
                }));
                match after {
                    Ok(true) => Real::Err(RealErr { err: PErr::Stream { p: 0, id: u32::MAX }, position: 0, span: (0, 0) }),
                    Ok(false) => Real::Panic("after a panic of the caller's iterator unwound through a parse, a later parse on the same thread gave a wrong verdict (state left behind)".into()),
                    Err(_) => Real::Panic("after a panic of the caller's iterator unwound through a parse, a later parse on the same thread panicked (state left behind)".into()),
                }
            }
            else if let Some(s) = payload.downcast_ref::<&str>() { Real::Panic(s.to_string()) }
            else if let Some(s) = payload.downcast_ref::<String>() { Real::Panic(s.clone()) }
            else { Real::Panic("<non-string panic payload>".into()) }
        }
    };
    Obs { real, polls: stream.polls, consumed: stream.consumed(), polls_after_exhaustion: stream.polls_after_exhaustion }
}
