//! The simulated transport: what the parser's pull-iterator seam delivers.
use crate::kernel::json::J;
use crate::kernel::rng::Digest;
use decoded_char::DecodedChar;

/// One answer of the simulated stream to a `next()` call.
#[derive(Clone, Copy, PartialEq, Eq, Debug)]
pub enum Ev {
    /// `Some(Ok(DecodedChar::new(c, len)))`
    Item(char, u32),
    /// `Some(Err(id))`
    Fail(u32),
    /// `None` (the stream may go on afterwards: iterators need not be fused)
    End,
}

/// Public entry points of the parser (all of them funnel into `Parser<C, E>`).
#[derive(Clone, Copy, PartialEq, Eq, Debug, PartialOrd, Ord)]
pub enum Entry {
    ParseWith,
    Parse,
    Utf8With,
    Utf8,
    InfallibleWith,
    Infallible,
    Utf8InfallibleWith,
    InfallibleUtf8,
    StrWith,
    Str,
    FromStr,
    SliceWith,
    Slice,
    /// `Parser::new_with(stream, options)` + `T::parse_in(&mut parser, context)` (public API too; C03 only)
    ParseIn,
}

pub const ALL_ENTRIES: [Entry; 14] = [
    Entry::ParseWith, Entry::Parse, Entry::Utf8With, Entry::Utf8, Entry::InfallibleWith, Entry::Infallible,
    Entry::Utf8InfallibleWith, Entry::InfallibleUtf8, Entry::StrWith, Entry::Str, Entry::FromStr, Entry::SliceWith, Entry::Slice, Entry::ParseIn,
];

impl Entry {
    pub fn name(self) -> &'static str {
        match self {
            Entry::ParseWith => "parse_with", Entry::Parse => "parse", Entry::Utf8With => "parse_utf8_with", Entry::Utf8 => "parse_utf8",
            Entry::InfallibleWith => "parse_infallible_with", Entry::Infallible => "parse_infallible",
            Entry::Utf8InfallibleWith => "parse_utf8_infallible_with", Entry::InfallibleUtf8 => "parse_infallible_utf8",
            Entry::StrWith => "parse_str_with", Entry::Str => "parse_str", Entry::FromStr => "from_str",
            Entry::SliceWith => "parse_slice_with", Entry::Slice => "parse_slice", Entry::ParseIn => "parser_parse_in",
        }
    }
    pub fn from_name(s: &str) -> Option<Entry> { ALL_ENTRIES.iter().copied().find(|e| e.name() == s) }
    /// Does the entry honour per-character byte lengths (`DecodedChar::new(c, len)`)?
    pub fn custom_len(self) -> bool { matches!(self, Entry::ParseWith | Entry::Parse | Entry::InfallibleWith | Entry::Infallible | Entry::ParseIn) }
    /// Can the stream behind this entry fail (`Some(Err(_))`)?
    pub fn fallible(self) -> bool { matches!(self, Entry::ParseWith | Entry::Parse | Entry::Utf8With | Entry::Utf8 | Entry::ParseIn) }
    /// Is the input an iterator owned by the simulator (so `None` need not be final)?
    pub fn iterator(self) -> bool { !matches!(self, Entry::StrWith | Entry::Str | Entry::FromStr | Entry::SliceWith | Entry::Slice) }
    pub fn bytes(self) -> bool { matches!(self, Entry::SliceWith | Entry::Slice) }
    pub fn takes_options(self) -> bool {
        matches!(self, Entry::ParseWith | Entry::Utf8With | Entry::InfallibleWith | Entry::Utf8InfallibleWith | Entry::StrWith | Entry::SliceWith | Entry::ParseIn)
    }
}

/// Which `Parse` implementor is asked for.
#[derive(Clone, Copy, PartialEq, Eq, Debug, PartialOrd, Ord)]
pub enum Target { Value, String, Number, Bool, Unit }
pub const ALL_TARGETS: [Target; 5] = [Target::Value, Target::String, Target::Number, Target::Bool, Target::Unit];
impl Target {
    pub fn name(self) -> &'static str { match self { Target::Value => "Value", Target::String => "String", Target::Number => "NumberBuf", Target::Bool => "bool", Target::Unit => "()" } }
    pub fn from_name(s: &str) -> Option<Target> { ALL_TARGETS.iter().copied().find(|e| e.name() == s) }
}

#[derive(Clone, PartialEq, Eq, Debug)]
pub enum Src {
    /// Answers of the stream, in order; after the last one the stream answers `None` forever.
    Events(Vec<Ev>),
    /// Raw bytes (byte-slice entry points only).
    Bytes(Vec<u8>),
}

/// A fully explicit stream scenario: replaying it needs no generator.
#[derive(Clone, PartialEq, Eq, Debug)]
pub struct StreamSc {
    pub entry: Entry,
    pub target: Target,
    /// (accept_truncated_surrogate_pair, accept_invalid_codepoints); ignored by option-less entries.
    pub opts: (bool, bool),
    pub src: Src,
    /// Names of the faults that produced `src` (informational; the scenario is `src`).
    pub faults: Vec<String>,
    /// `Context` handed to `parse_in` by the `ParseIn` entry: 0 None, 1 Array, 2 ObjectKey, 3 ObjectValue
    pub context: u8,
    /// `Iterator::size_hint` of the simulated stream (iterator entries only): 0 = the default `(0, None)`;
    /// 1 = exact `(n, Some(n))`; 2 = an endless stream: after the events it yields U+0000 for ever and
    /// reports `(usize::MAX, None)`, like `iter::repeat` (U+0000 is rejected in every parser state, so a
    /// correct parser still terminates)
    pub hint: u8,
    /// re-entrancy: while answering this poll (1-based; 0 = never) the stream itself parses a small
    /// document on the same thread — a source that decodes or validates with the same library
    pub reenter_at: u32,
    /// while answering this poll (1-based; 0 = never) the stream *panics* (a bug of the caller's
    /// iterator). The parser cannot help that — but the library must still work afterwards: the run
    /// then parses a valid and an invalid document on the same thread and both must come out right.
    pub panic_at: u32,
}

impl StreamSc {
    /// C07 scenarios end at their first terminal event (nothing is delivered after `None`/`Err`).
    pub fn truncate_after_terminal(&mut self) {
        if let Src::Events(evs) = &mut self.src {
            if let Some(i) = evs.iter().position(|e| !matches!(e, Ev::Item(..))) { evs.truncate(i + 1); }
        }
    }
    pub fn ends_at_terminal(&self) -> bool {
        match &self.src { Src::Events(evs) => evs.iter().position(|e| !matches!(e, Ev::Item(..))).map(|i| i + 1 == evs.len()).unwrap_or(true), Src::Bytes(_) => true }
    }

    pub fn strict(&self) -> bool { !self.entry.takes_options() || self.opts == (false, false) }

    /// Make the scenario expressible through its entry point: lengths forced to UTF-8 where the
    /// entry computes them itself, failures and non-final `None`s removed where the entry cannot
    /// express them, bytes <-> events converted.
    pub fn normalise(&mut self) {
        let e = self.entry;
        if e.bytes() {
            if let Src::Events(evs) = &self.src {
                let mut b = Vec::new();
                for ev in evs { if let Ev::Item(c, _) = ev { let mut buf = [0u8; 4]; b.extend_from_slice(c.encode_utf8(&mut buf).as_bytes()); } }
                self.src = Src::Bytes(b);
            }
            return;
        }
        if let Src::Bytes(b) = &self.src {
            let s = String::from_utf8_lossy(b);
            self.src = Src::Events(s.chars().map(|c| Ev::Item(c, c.len_utf8() as u32)).collect());
        }
        if let Src::Events(evs) = &mut self.src {
            if !e.fallible() { evs.retain(|ev| !matches!(ev, Ev::Fail(_))); }
            if !e.iterator() { evs.retain(|ev| matches!(ev, Ev::Item(..))); }
            if !e.custom_len() { for ev in evs.iter_mut() { if let Ev::Item(c, l) = ev { *l = c.len_utf8() as u32; } } }
        }
    }

    pub fn to_json(&self) -> J {
        let mut o = vec![
            ("entry".to_string(), J::from(self.entry.name())),
            ("target".to_string(), J::from(self.target.name())),
            ("options".to_string(), J::Obj(vec![
                ("accept_truncated_surrogate_pair".into(), J::Bool(self.opts.0)),
                ("accept_invalid_codepoints".into(), J::Bool(self.opts.1)),
            ])),
        ];
        match &self.src {
            Src::Events(evs) => {
                let text: String = evs.iter().map(|e| match e { Ev::Item(c, _) => *c, Ev::Fail(_) => '\u{2620}', Ev::End => '\u{2400}' }).collect();
                o.push(("text_readable".into(), J::Str(text)));
                o.push(("events".into(), J::Arr(evs.iter().map(|e| match e {
                    Ev::Item(c, l) => J::Arr(vec![J::UInt(*c as u64), J::UInt(*l as u64)]),
                    Ev::Fail(id) => J::Obj(vec![("fail".into(), J::UInt(*id as u64))]),
                    Ev::End => J::Str("none".into()),
                }).collect())));
            }
            Src::Bytes(b) => {
                o.push(("text_readable".into(), J::Str(String::from_utf8_lossy(b).into_owned())));
                o.push(("bytes".into(), J::Arr(b.iter().map(|x| J::UInt(*x as u64)).collect())));
            }
        }
        o.push(("faults".into(), J::Arr(self.faults.iter().map(|s| J::Str(s.clone())).collect())));
        if self.entry == Entry::ParseIn { o.push(("context".into(), J::UInt(self.context as u64))); }
        if self.hint != 0 { o.push(("size_hint_mode".into(), J::UInt(self.hint as u64))); }
        if self.reenter_at != 0 { o.push(("reenter_at_poll".into(), J::UInt(self.reenter_at as u64))); }
        if self.panic_at != 0 { o.push(("stream_panics_at_poll".into(), J::UInt(self.panic_at as u64))); }
        J::Obj(o)
    }

    pub fn from_json(j: &J) -> Result<StreamSc, String> {
        let entry = j.get("entry").and_then(J::as_str).and_then(Entry::from_name).ok_or("entry")?;
        let target = j.get("target").and_then(J::as_str).and_then(Target::from_name).ok_or("target")?;
        let o = j.get("options").ok_or("options")?;
        let opts = (
            o.get("accept_truncated_surrogate_pair").and_then(J::as_bool).ok_or("opt0")?,
            o.get("accept_invalid_codepoints").and_then(J::as_bool).ok_or("opt1")?,
        );
        let src = if let Some(b) = j.get("bytes") {
            Src::Bytes(b.as_arr().ok_or("bytes")?.iter().map(|x| x.as_u64().map(|v| v as u8).ok_or("byte")).collect::<Result<_, _>>()?)
        } else {
            let mut evs = vec![];
            for e in j.get("events").and_then(J::as_arr).ok_or("events")? {
                evs.push(match e {
                    J::Arr(a) if a.len() == 2 => Ev::Item(
                        char::from_u32(a[0].as_u64().ok_or("cp")? as u32).ok_or("cp range")?,
                        a[1].as_u64().ok_or("len")? as u32,
                    ),
                    J::Obj(_) => Ev::Fail(e.get("fail").and_then(J::as_u64).ok_or("fail")? as u32),
                    J::Str(s) if s == "none" => Ev::End,
                    _ => return Err("event".into()),
                });
            }
            Src::Events(evs)
        };
        let faults = j.get("faults").and_then(J::as_arr).map(|a| a.iter().filter_map(|x| x.as_str().map(String::from)).collect()).unwrap_or_default();
        let context = j.get("context").and_then(J::as_u64).unwrap_or(0) as u8;
        let hint = j.get("size_hint_mode").and_then(J::as_u64).unwrap_or(0) as u8;
        let reenter_at = j.get("reenter_at_poll").and_then(J::as_u64).unwrap_or(0) as u32;
        let panic_at = j.get("stream_panics_at_poll").and_then(J::as_u64).unwrap_or(0) as u32;
        Ok(StreamSc { entry, target, opts, src, faults, context, hint, reenter_at, panic_at })
    }

    pub fn digest(&self) -> u64 {
        let mut d = Digest::default();
        d.u8(self.entry as u8); d.u8(self.target as u8); if self.entry == Entry::ParseIn { d.u8(self.context) } d.u8(self.hint); d.u64(self.reenter_at as u64); d.u64(self.panic_at as u64);
        if self.entry.takes_options() { d.u8(self.opts.0 as u8 | (self.opts.1 as u8) << 1); } else { d.u8(0) }
        match &self.src {
            Src::Events(evs) => for e in evs { match e { Ev::Item(c, l) => { d.u64((*c as u64) << 8 | *l as u64) } Ev::Fail(i) => d.u64(1 << 40 | *i as u64), Ev::End => d.u64(2 << 40) } },
            Src::Bytes(b) => { d.u64(3 << 40); d.bytes(b) }
        }
        d.finish()
    }

    pub fn size(&self) -> usize { match &self.src { Src::Events(e) => e.len(), Src::Bytes(b) => b.len() } }
}

/// Raised (as a panic payload) by the stream's own watchdog when the parser keeps polling.
pub struct SpinDetected;
/// Panic payload of the deliberately failing caller-side iterator.
pub struct StreamPanicked;

/// The iterator handed to the parser. Not `Clone`: the parser's only access to its input is
/// `next()`, so "each character pulled at most once" holds by construction and is confirmed by
/// the poll counter.
pub struct SimStream<'a> {
    evs: &'a [Ev],
    i: usize,
    pub polls: usize,
    pub polls_after_exhaustion: usize,
    limit: usize,
    hint: u8,
    reenter_at: usize,
    panic_at: usize,
}

impl<'a> SimStream<'a> {
    pub fn new(evs: &'a [Ev]) -> Self { SimStream { evs, i: 0, polls: 0, polls_after_exhaustion: 0, limit: evs.len() + 10_000, hint: 0, reenter_at: 0, panic_at: 0 } }
    pub fn with_hint(evs: &'a [Ev], hint: u8) -> Self { SimStream { hint, ..SimStream::new(evs) } }
    pub fn reentering_at(mut self, poll: usize) -> Self { self.reenter_at = poll; self }
    pub fn panicking_at(mut self, poll: usize) -> Self { self.panic_at = poll; self }
    fn hint(&self) -> (usize, Option<usize>) {
        match self.hint { 1 => { let n = self.evs[self.i.min(self.evs.len())..].iter().take_while(|e| matches!(e, Ev::Item(..))).count(); (n, Some(n)) } 2 => (usize::MAX, None), _ => (0, None) }
    }
    #[inline]
    fn pull(&mut self) -> Option<Result<(char, u32), u32>> {
        self.polls += 1;
        if self.polls > self.limit { std::panic::panic_any(SpinDetected); }
        if self.polls == self.panic_at { std::panic::panic_any(StreamPanicked); }
        if self.polls == self.reenter_at {
            // the source uses the library itself while the outer parse is waiting for this character
            use json_syntax::Parse;
            let nested = json_syntax::Value::parse_str("[1,{\"a\":[true,null],\"b\":\"\\ud83d\\ude00\"},-0.5e1]");
            if nested.is_err() { panic!("a nested parse inside the stream's next() failed: the parser is not re-entrant"); }
            let bad = json_syntax::Value::parse_str("[1,}");
            if bad.is_ok() { panic!("a nested parse inside the stream's next() accepted an invalid text: the parser is not re-entrant"); }
        }
        match self.evs.get(self.i) {
            Some(ev) => { self.i += 1; match *ev { Ev::Item(c, l) => Some(Ok((c, l))), Ev::Fail(id) => Some(Err(id)), Ev::End => None } }
            None => { self.polls_after_exhaustion += 1; if self.hint == 2 { Some(Ok(('\u{0}', 1))) } else { None } }
        }
    }
    /// Number of events the parser has consumed.
    pub fn consumed(&self) -> usize { self.i }
}

pub struct AsDecoded<'s, 'a>(pub &'s mut SimStream<'a>);
impl<'s, 'a> Iterator for AsDecoded<'s, 'a> {
    type Item = Result<DecodedChar, u32>;
    #[inline]
    fn size_hint(&self) -> (usize, Option<usize>) { self.0.hint() }
    fn next(&mut self) -> Option<Self::Item> { self.0.pull().map(|r| r.map(|(c, l)| DecodedChar::new(c, l as usize))) }
}
pub struct AsChars<'s, 'a>(pub &'s mut SimStream<'a>);
impl<'s, 'a> Iterator for AsChars<'s, 'a> {
    type Item = Result<char, u32>;
    #[inline]
    fn size_hint(&self) -> (usize, Option<usize>) { self.0.hint() }
    fn next(&mut self) -> Option<Self::Item> { self.0.pull().map(|r| r.map(|(c, _)| c)) }
}
/// Infallible views: a `Fail` event cannot be expressed; scenarios are normalised so that none occurs.
pub struct AsDecodedInf<'s, 'a>(pub &'s mut SimStream<'a>);
impl<'s, 'a> Iterator for AsDecodedInf<'s, 'a> {
    type Item = DecodedChar;
    #[inline]
    fn size_hint(&self) -> (usize, Option<usize>) { self.0.hint() }
    fn next(&mut self) -> Option<Self::Item> { match self.0.pull() { Some(Ok((c, l))) => Some(DecodedChar::new(c, l as usize)), _ => None } }
}
pub struct AsCharsInf<'s, 'a>(pub &'s mut SimStream<'a>);
impl<'s, 'a> Iterator for AsCharsInf<'s, 'a> {
    type Item = char;
    #[inline]
    fn size_hint(&self) -> (usize, Option<usize>) { self.0.hint() }
    fn next(&mut self) -> Option<Self::Item> { match self.0.pull() { Some(Ok((c, _))) => Some(c), _ => None } }
}

/// What the seam delivered when pulled to its first terminal event: the *input* in the sense of
/// C07 (items with their byte lengths) and how it ended.
#[derive(Clone, Debug, PartialEq, Eq)]
pub struct Delivered {
    pub items: Vec<(char, usize)>,
    pub term: Term,
}
#[derive(Clone, Copy, Debug, PartialEq, Eq)]
pub enum Term { End, Fail(u32), /// byte path: ill-formed UTF-8 starts here
    IllFormed }

impl StreamSc {
    /// Delivered input up to the first terminal event (C07 scenarios have nothing after it).
    pub fn delivered(&self) -> Delivered {
        match &self.src {
            Src::Events(evs) => {
                let mut items = Vec::with_capacity(evs.len());
                for ev in evs {
                    match *ev {
                        Ev::Item(c, l) => items.push((c, if self.entry.custom_len() { l as usize } else { c.len_utf8() })),
                        Ev::Fail(id) => return Delivered { items, term: Term::Fail(id) },
                        Ev::End => return Delivered { items, term: Term::End },
                    }
                }
                Delivered { items, term: Term::End }
            }
            Src::Bytes(b) => {
                let (items, ok) = decode_utf8_table_3_7(b);
                // cross-check the hand-written decoder against std (they must agree; if they ever
                // do not, the oracle is not trusted and the run is a harness error, not an alarm)
                let std_valid = match std::str::from_utf8(b) { Ok(_) => b.len(), Err(e) => e.valid_up_to() };
                let mine: usize = items.iter().map(|x| x.1).sum();
                assert!(std_valid == mine && ok == (mine == b.len()), "HARNESS: UTF-8 oracles disagree on {:02x?}", b);
                Delivered { items, term: if ok { Term::End } else { Term::IllFormed } }
            }
        }
    }
}

/// Well-formed UTF-8 byte sequences, Unicode Standard table 3-7, written out by hand so that the
/// byte-path oracle does not rest on the same library routine as the code under test. Returns
/// the characters of the longest well-formed prefix and whether that prefix is the whole input.
pub fn decode_utf8_table_3_7(b: &[u8]) -> (Vec<(char, usize)>, bool) {
    let mut out = Vec::with_capacity(b.len());
    let mut i = 0;
    let cont = |x: Option<&u8>, lo: u8, hi: u8| x.map(|v| *v >= lo && *v <= hi).unwrap_or(false);
    while i < b.len() {
        let b0 = b[i];
        let (len, cp) = match b0 {
            0x00..=0x7f => (1, b0 as u32),
            0xc2..=0xdf => { if !cont(b.get(i + 1), 0x80, 0xbf) { return (out, false); } (2, ((b0 as u32 & 0x1f) << 6) | (b[i + 1] as u32 & 0x3f)) }
            0xe0..=0xef => {
                let (lo, hi) = match b0 { 0xe0 => (0xa0, 0xbf), 0xed => (0x80, 0x9f), _ => (0x80, 0xbf) };
                if !cont(b.get(i + 1), lo, hi) || !cont(b.get(i + 2), 0x80, 0xbf) { return (out, false); }
                (3, ((b0 as u32 & 0x0f) << 12) | ((b[i + 1] as u32 & 0x3f) << 6) | (b[i + 2] as u32 & 0x3f))
            }
            0xf0..=0xf4 => {
                let (lo, hi) = match b0 { 0xf0 => (0x90, 0xbf), 0xf4 => (0x80, 0x8f), _ => (0x80, 0xbf) };
                if !cont(b.get(i + 1), lo, hi) || !cont(b.get(i + 2), 0x80, 0xbf) || !cont(b.get(i + 3), 0x80, 0xbf) { return (out, false); }
                (4, ((b0 as u32 & 0x07) << 18) | ((b[i + 1] as u32 & 0x3f) << 12) | ((b[i + 2] as u32 & 0x3f) << 6) | (b[i + 3] as u32 & 0x3f))
            }
            _ => return (out, false),
        };
        match char::from_u32(cp) { Some(c) => out.push((c, len)), None => return (out, false) }
        i += len;
    }
    (out, true)
}
