//! Grammar-driven generator of JSON documents (the workload the faults land in).
use crate::kernel::rng::Rng;

#[derive(Clone, Debug)]
pub struct Knobs {
    pub max_depth: usize,
    pub max_fanout: usize,
    /// 0 = none, 3 = lots of whitespace
    pub ws: u64,
    /// approximate upper bound on the number of characters
    pub budget: usize,
    /// allow surrogate anomalies in `\u` escapes (lone/swapped surrogates)
    pub anomalies: bool,
    /// weight of container kinds (0..=10)
    pub container_bias: u64,
    pub long_numbers: bool,
    /// one run in thirty: tokens far beyond any inline buffer (numbers of thousands of digits, strings of thousands of elements)
    pub huge_tokens: bool,
    /// one run in thirty: very wide containers
    pub wide: bool,
}

impl Knobs {
    pub fn draw(rng: &mut Rng, max_budget: usize) -> Knobs {
        Knobs {
            max_depth: rng.urange(0, 6),
            max_fanout: rng.urange(1, 5),
            ws: rng.below(4),
            budget: rng.urange(4, max_budget.max(5)),
            anomalies: rng.chance(1, 6),
            container_bias: rng.range(1, 8),
            long_numbers: rng.chance(1, 8),
            huge_tokens: rng.chance(1, 30),
            wide: rng.chance(1, 30),
        }
    }
}

const WS: [char; 4] = [' ', '\t', '\n', '\r'];

fn ws(rng: &mut Rng, k: &Knobs, out: &mut Vec<char>) {
    if k.ws == 0 { return; }
    while rng.below(4) < k.ws && rng.chance(1, 2) { out.push(*rng.pick(&WS)); }
}

fn digits(rng: &mut Rng, out: &mut Vec<char>, lo: usize, hi: usize) {
    for _ in 0..rng.urange(lo, hi) { out.push((b'0' + rng.below(10) as u8) as char); }
}

pub fn gen_number(rng: &mut Rng, k: &Knobs, out: &mut Vec<char>) {
    if rng.chance(1, 3) { out.push('-'); }
    if rng.chance(1, 3) { out.push('0'); } else {
        out.push((b'1' + rng.below(9) as u8) as char);
        let hi = if k.huge_tokens { if rng.chance(1, 40) { 70_000 } else { 3000 } } else if k.long_numbers { 40 } else { 4 };
        digits(rng, out, if hi == 70_000 { 65_000 } else { 0 }, hi);
    }
    if rng.chance(1, 3) { out.push('.'); digits(rng, out, 1, if k.huge_tokens { 2000 } else if k.long_numbers { 30 } else { 3 }); }
    if rng.chance(1, 3) {
        out.push(if rng.chance(1, 2) { 'e' } else { 'E' });
        match rng.below(3) { 0 => out.push('+'), 1 => out.push('-'), _ => {} }
        digits(rng, out, 1, if k.huge_tokens { 400 } else { 3 });
    }
}

fn hex4(rng: &mut Rng, cp: u32, out: &mut Vec<char>) {
    out.push('\\'); out.push('u');
    for i in (0..4).rev() {
        let d = (cp >> (4 * i)) & 0xf;
        let ch = char::from_digit(d, 16).unwrap();
        out.push(if rng.chance(1, 2) { ch.to_ascii_uppercase() } else { ch });
    }
}

const RAW: [char; 16] = ['a', 'Z', '0', ' ', '/', '\'', '\u{7f}', 'é', 'ß', '€', '\u{2028}', '\u{ffff}', '😀', '\u{10ffff}', '\u{feff}', '~'];
const SIMPLE_ESC: [char; 8] = ['"', '\\', '/', 'b', 'f', 'n', 'r', 't'];

pub fn gen_string(rng: &mut Rng, k: &Knobs, out: &mut Vec<char>, max_elems: usize) {
    out.push('"');
    // (one huge string in twenty goes past 2^16 elements: a length kept in 16 bits would wrap)
    let max_elems = if k.huge_tokens && rng.chance(1, 3) { if rng.chance(1, 20) { 70_000 } else { 4000 } } else { max_elems };
    let n = if max_elems == 70_000 { rng.urange(65_000, 70_000) } else { rng.urange(0, max_elems) };
    for _ in 0..n {
        match rng.below(12) {
            0..=4 => out.push(*rng.pick(&RAW)),
            5 => out.push((b'a' + rng.below(26) as u8) as char),
            6 | 7 => { out.push('\\'); out.push(*rng.pick(&SIMPLE_ESC)); }
            8 => { let cp = *rng.pick(&[0x0000u32, 0x001f, 0x0020, 0x0022, 0x005c, 0x007f, 0x0080, 0x00e9, 0x07ff, 0x0800, 0x2028, 0x20ac, 0xd7ff, 0xe000, 0xfeff, 0xfffc, 0xfffd, 0xfffe, 0xffff]); hex4(rng, cp, out); }
            9 => { let cp = if rng.chance(1, 4) { 0xe000 + rng.below(0x2000) as u32 } else { rng.below(0xd800) as u32 }; hex4(rng, cp, out); }
            10 => { // surrogate pair
                let hi = 0xd800 + rng.below(0x400) as u32; let lo = 0xdc00 + rng.below(0x400) as u32;
                hex4(rng, hi, out); hex4(rng, lo, out);
            }
            _ => {
                if k.anomalies {
                    match rng.below(4) {
                        0 => { let h = 0xd800 + rng.below(0x400) as u32; hex4(rng, h, out) } // lone high
                        1 => { let l = 0xdc00 + rng.below(0x400) as u32; hex4(rng, l, out) } // lone low
                        2 => { let lo = 0xdc00 + rng.below(0x400) as u32; hex4(rng, lo, out); let hi = 0xd800 + rng.below(0x400) as u32; hex4(rng, hi, out); } // swapped
                        _ => { let hi = 0xd800 + rng.below(0x400) as u32; hex4(rng, hi, out); let hi2 = 0xd800 + rng.below(0x400) as u32; hex4(rng, hi2, out); } // high high
                    }
                } else { out.push('x'); }
            }
        }
    }
    out.push('"');
}

const KEYS: [&str; 13] = ["a", "b", "", "k", "key", "a", "a-rather-long-key-beyond-16-bytes", "é", "k\\n", "\\u0061", "http://example.org/ns#prénom_de_l_auteur", "十六バイトより長いキー", "key😀with€every£width-of-char"];

fn gen_value(rng: &mut Rng, k: &Knobs, depth: usize, out: &mut Vec<char>) {
    let room = out.len() < k.budget;
    let container = depth < k.max_depth && room && rng.below(10) < k.container_bias;
    if container {
        let n = if k.wide && rng.chance(1, 2) { rng.urange(0, 1500) } else { rng.urange(0, k.max_fanout) };
        if rng.chance(1, 2) {
            out.push('['); ws(rng, k, out);
            for i in 0..n {
                if i > 0 { out.push(','); ws(rng, k, out); }
                gen_value(rng, k, depth + 1, out); ws(rng, k, out);
                if out.len() >= k.budget && i + 1 < n { break; }
            }
            out.push(']');
        } else {
            out.push('{'); ws(rng, k, out);
            for i in 0..n {
                if i > 0 { out.push(','); ws(rng, k, out); }
                if rng.chance(3, 4) { out.push('"'); out.extend(rng.pick(&KEYS).chars()); out.push('"'); } else { gen_string(rng, k, out, 4); }
                ws(rng, k, out); out.push(':'); ws(rng, k, out);
                gen_value(rng, k, depth + 1, out); ws(rng, k, out);
                if out.len() >= k.budget && i + 1 < n { break; }
            }
            out.push('}');
        }
    } else {
        match rng.below(8) {
            0 => out.extend("null".chars()),
            1 => out.extend("true".chars()),
            2 => out.extend("false".chars()),
            3 | 4 => gen_number(rng, k, out),
            5 | 6 => gen_string(rng, k, out, 8),
            _ => if rng.chance(1, 2) { out.extend("[]".chars()) } else { out.extend("{}".chars()) },
        }
    }
}

/// A complete, valid JSON text (unless `k.anomalies`, in which case strings may carry surrogate
/// anomalies — still grammatical in the sense of C07).
pub fn gen_doc(rng: &mut Rng, k: &Knobs) -> Vec<char> {
    let mut out = Vec::new();
    ws(rng, k, &mut out);
    gen_value(rng, k, 0, &mut out);
    ws(rng, k, &mut out);
    out
}

/// A valid document with one *spine*: `depth` nested containers (arrays and `{"k":` objects mixed)
/// around a scalar, inside an outer container that goes on after the spine closes; on the way
/// out some levels get a further sibling, often a number directly before the closer. State that a
/// parser keeps per nesting level (bit stacks, small counters) wraps around at 64 / 128 / 256.
pub fn gen_spine_doc(rng: &mut Rng, depth: usize) -> Vec<char> {
    fn scalar(rng: &mut Rng, out: &mut Vec<char>) {
        match rng.below(6) { 0 => out.extend("null".chars()), 1 => out.extend("true".chars()), 2 => out.extend("\"s\"".chars()), 3 => out.extend("-1.5e3".chars()), _ => out.push((b'0' + rng.below(10) as u8) as char) }
    }
    let sp = |rng: &mut Rng, out: &mut Vec<char>| { if rng.chance(1, 6) { out.push(' '); } };
    let mut out: Vec<char> = vec![];
    // outer container with one member before the spine
    let outer_obj = rng.chance(2, 3);
    if outer_obj { out.extend("{\"a\":".chars()); } else { out.extend("[0,".chars()); }
    let obj_weight = rng.below(4); // 0: arrays only … 3: mostly objects
    let kinds: Vec<bool> = (0..depth).map(|_| rng.below(4) < obj_weight).collect();
    for &o in &kinds { if o { out.extend("{\"k\":".chars()); } else { out.push('['); } sp(rng, &mut out); }
    scalar(rng, &mut out);
    for &o in kinds.iter().rev() {
        if rng.chance(1, 8) {
            out.push(','); sp(rng, &mut out);
            if o { out.extend("\"b\":".chars()); }
            scalar(rng, &mut out); sp(rng, &mut out);
        }
        out.push(if o { '}' } else { ']' });
    }
    // the outer container goes on after the spine
    for i in 0..rng.urange(1, 3) {
        out.push(','); sp(rng, &mut out);
        if outer_obj { out.extend(format!("\"b{}\":", i).chars()); }
        scalar(rng, &mut out); sp(rng, &mut out);
    }
    out.push(if outer_obj { '}' } else { ']' });
    out
}

/// Structure-biased garbage: token soup that is *not* generally valid (C03 workload).
pub fn gen_soup(rng: &mut Rng, n: usize) -> Vec<char> {
    const TOK: [&str; 28] = ["{", "}", "[", "]", ":", ",", "\"", "\\", "\\u", "\\ud800", "\\udc00", "null", "true", "false", "nul", "tru", "0", "-", "1.5", "1e", "1e+", "-0.0E-1", " ", "\n", "\"a\"", "é", "😀", "\u{0}"];
    let mut out = Vec::new();
    for _ in 0..n {
        if rng.chance(1, 10) { out.push(char::from_u32(rng.below(0x11_0000) as u32).unwrap_or('\u{fffd}')); }
        else { out.extend(rng.pick(&TOK).chars()); }
    }
    out
}

/// A long document: a top-level array (or object) of generated sub-documents, about `target` characters.
pub fn gen_big_doc(rng: &mut Rng, target: usize) -> Vec<char> {
    let obj = rng.chance(1, 3);
    let mut out: Vec<char> = vec![if obj { '{' } else { '[' }];
    let mut i = 0usize;
    while out.len() < target {
        if i > 0 { out.push(','); if rng.chance(1, 3) { out.push(if rng.chance(1, 2) { ' ' } else { '\n' }); } }
        if obj { out.push('"'); out.extend(format!("k{}", i % 97).chars()); out.push('"'); out.push(':'); }
        let mut k = Knobs::draw(rng, 200);
        k.huge_tokens = false; k.wide = false;
        let d = gen_doc(rng, &k);
        // sub-documents carry their own surrounding whitespace; that is fine inside a container
        out.extend(d);
        i += 1;
    }
    out.push(if obj { '}' } else { ']' });
    out
}
