//! One explicit, serialisable scenario type for all engines: a replay file holds exactly this.
use crate::kernel::json::J;
use crate::object::hist::HistSc;
use crate::stream::deep::DeepSc;
use crate::stream::tape::StreamSc;

#[derive(Clone, Debug, PartialEq)]
pub enum Scenario {
    Stream(StreamSc),
    Deep(DeepSc),
    Hist(HistSc),
}

impl Scenario {
    pub fn engine(&self) -> &'static str {
        match self { Scenario::Stream(_) => "stream", Scenario::Deep(_) => "deep", Scenario::Hist(_) => "history" }
    }
    pub fn to_json(&self) -> J {
        match self { Scenario::Stream(s) => s.to_json(), Scenario::Deep(d) => d.to_json(), Scenario::Hist(h) => h.to_json() }
    }
    pub fn from_json(engine: &str, j: &J) -> Result<Scenario, String> {
        match engine {
            "stream" => StreamSc::from_json(j).map(Scenario::Stream),
            "deep" => DeepSc::from_json(j).map(Scenario::Deep),
            "history" => HistSc::from_json(j).map(Scenario::Hist),
            e => Err(format!("unknown engine {}", e)),
        }
    }
    pub fn size(&self) -> usize {
        match self { Scenario::Stream(s) => s.size(), Scenario::Deep(d) => d.depth as usize, Scenario::Hist(h) => h.size() }
    }
}
