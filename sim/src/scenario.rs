//! One explicit, serialisable scenario type for all engines: a replay file holds exactly this.
use crate::kernel::json::J;
use crate::object::hist::HistSc;
use crate::stream::deep::DeepSc;
use crate::stream::tape::StreamSc;

#[derive(Clone, Debug, PartialEq)]
pub enum Scenario {
    Stream(StreamSc),
    Deep(DeepSc),
    Hist(HistSc),
}

impl Scenario {
    pub fn engine(&self) -> &'static str {
        match self { Scenario::Stream(_) => "stream", Scenario::Deep(_) => "deep", Scenario::Hist(_) => "history" }
    }
    pub fn to_json(&self) -> J {
        match self { Scenario::Stream(s) => s.to_json(), Scenario::Deep(d) => d.to_json(), Scenario::Hist(h) => h.to_json() }
    }
    pub fn from_json(engine: &str, j: &J) -> Result<Scenario, String> {
        match engine {
            "stream" => StreamSc::from_json(j).map(Scenario::Stream),
            "deep" => DeepSc::from_json(j).map(Scenario::Deep),
            "history" => HistSc::from_json(j).map(Scenario::Hist),
            e => Err(format!("unknown engine {}", e)),
        }
    }
    /// Scenario as written into the evidence samples: big ones are abbreviated.
    pub fn sample_json(&self) -> J {
        if self.size() <= 80 { return self.to_json(); }
        match self {
            Scenario::Stream(s) => {
                let full = s.to_json();
                let text: String = full.get("text_readable").and_then(J::as_str).unwrap_or("").chars().take(160).collect();
                J::Obj(vec![("entry".into(), full.get("entry").cloned().unwrap_or(J::Null)), ("target".into(), full.get("target").cloned().unwrap_or(J::Null)), ("options".into(), full.get("options").cloned().unwrap_or(J::Null)),
                    ("abbreviated".into(), J::Bool(true)), ("size".into(), J::UInt(s.size() as u64)), ("text_readable_first_160".into(), J::Str(text)), ("faults".into(), full.get("faults").cloned().unwrap_or(J::Null))])
            }
            Scenario::Hist(h) => {
                let mut short = h.clone();
                short.ops.truncate(40);
                let mut j = short.to_json();
                j.set("abbreviated_to_first_40_of", J::UInt(h.ops.len() as u64));
                j
            }
            Scenario::Deep(d) => d.to_json(),
        }
    }
    pub fn size(&self) -> usize {
        match self { Scenario::Stream(s) => s.size(), Scenario::Deep(d) => d.depth as usize, Scenario::Hist(h) => h.size() }
    }
}
