fn main() { println!("hello"); }
