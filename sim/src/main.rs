//! jsim — deterministic simulation with fault injection for json-syntax (see /verif/DESIGN.md).
#[macro_use]
pub mod kernel;
pub mod object;
pub mod orchestrate;
pub mod scenario;
pub mod stream;

/// VERIF_SEED (default 1: a fixed value, so the unchanged tree can never flake).
pub fn seed() -> u64 {
    std::env::var("VERIF_SEED").ok().and_then(|s| s.trim().parse::<u64>().ok()).unwrap_or(1)
}

fn main() {
    let args: Vec<String> = std::env::args().skip(1).collect();
    let code = orchestrate::main(&args);
    std::process::exit(code);
}
