//! Parallel batch runner. A run depends only on (VERIF_SEED, phase, run index), so results are
//! independent of the worker count and of which worker ran which chunk.
use super::stats::Stats;
use crate::scenario::Scenario;
use std::os::unix::fs::FileExt;
use std::sync::atomic::{AtomicU64, Ordering};
use std::sync::Mutex;

#[derive(Clone, Debug)]
pub struct Violation {
    /// which oracle clause fired, e.g. `c07.unexpected_position`
    pub check_id: String,
    pub message: String,
}

pub struct Exec {
    /// digest of what was observed (result, polls, ...): feeds the determinism self-test
    pub outcome: u64,
    pub digest: u64,
    pub nontrivial: bool,
    pub violation: Option<Violation>,
}

/// A generated scenario plus accounting hints (which fault kind came first and where); the
/// hints never influence the verdict.
pub struct Gen {
    pub sc: Scenario,
    pub tag: u8,
    pub at: Option<usize>,
}

impl Gen {
    pub fn plain(sc: Scenario) -> Gen { Gen { sc, tag: 0, at: None } }
}

pub trait Phase: Sync {
    fn name(&self) -> &'static str;
    /// distinct per phase (feeds the per-run generator)
    fn id(&self) -> u64;
    fn runs(&self) -> u64;
    fn generate(&self, seed: u64, run: u64) -> Gen;
    fn execute(&self, g: &Gen, run: u64, st: &mut Stats) -> Exec;
    /// strictly smaller / simpler variants of `sc`, most aggressive first
    fn shrink_candidates(&self, sc: &Scenario) -> Vec<Scenario>;
    /// runs whose scenario is written out as a sample in the evidence
    fn sample_runs(&self) -> Vec<u64> {
        let n = self.runs();
        if n == 0 { return vec![]; }
        let mut v = vec![0, n / 3, (2 * n) / 3, n - 1];
        v.dedup();
        v
    }
    fn chunk(&self) -> u64 { 1024 }
}

pub struct Found {
    pub run: u64,
    pub scenario: Scenario,
    pub violation: Violation,
}

pub struct PhaseResult {
    pub stats: Stats,
    /// lowest-run violation per check id
    pub found: Vec<Found>,
    pub runs_done: u64,
    pub wall_s: f64,
}

pub struct Crumbs {
    file: Option<std::fs::File>,
}

pub const CRUMB_SLOT: u64 = 48;

impl Crumbs {
    pub fn open(path: &str) -> Crumbs {
        let file = std::fs::OpenOptions::new().create(true).write(true).truncate(true).open(path).ok();
        Crumbs { file }
    }
    pub fn none() -> Crumbs { Crumbs { file: None } }
    fn mark(&self, slot: usize, phase: &str, a: u64, b: u64) {
        if let Some(f) = &self.file {
            let mut s = format!("{} {} {}", phase, a, b);
            while (s.len() as u64) < CRUMB_SLOT - 1 { s.push(' '); }
            s.push('\n');
            let _ = f.write_at(s.as_bytes(), slot as u64 * CRUMB_SLOT);
        }
    }
    fn clear(&self, slot: usize) { self.mark(slot, "-", 0, 0) }
    pub fn read(path: &str) -> Vec<(String, u64, u64)> {
        let mut out = vec![];
        if let Ok(bytes) = std::fs::read(path) {
            // fixed-size slots; slots never written are NUL-filled holes
            for slot in bytes.chunks(CRUMB_SLOT as usize) {
                let line: String = String::from_utf8_lossy(slot).chars().filter(|c| *c != '\0').collect();
                let mut it = line.split_whitespace();
                if let (Some(p), Some(a), Some(b)) = (it.next(), it.next(), it.next()) {
                    if p != "-" { if let (Ok(a), Ok(b)) = (a.parse(), b.parse()) { out.push((p.to_string(), a, b)); } }
                }
            }
        }
        out.sort();
        out.dedup();
        out
    }
}

pub const WORKER_STACK: usize = 1 << 20;
/// above this many runs per phase, distinct digests are counted on a 1/16 sub-sample
pub const DIGEST_EXACT_LIMIT: u64 = 64_000_000;

/// Run `range` of the phase on `threads` workers.
pub fn run_phase(phase: &dyn Phase, seed: u64, range: (u64, u64), threads: usize, crumbs: &Crumbs, log_runs: bool) -> PhaseResult {
    let t0 = std::time::Instant::now();
    let chunk = phase.chunk();
    let next = AtomicU64::new(range.0);
    // runs at or beyond this index need not be executed (a violation was found below it)
    let stop_at = AtomicU64::new(u64::MAX);
    let merged: Mutex<(Stats, Vec<Found>, u64)> = Mutex::new((Stats::default(), vec![], 0));
    let samples = phase.sample_runs();
    // very large batches count distinct digests on the 1/16 sub-sample `digest % 16 == 0` (a lower bound)
    let sample_digests = phase.runs() > DIGEST_EXACT_LIMIT;
    // heartbeat per worker: (runs executed, 1 while inside a run). A run that makes no progress for
    // `hang_limit` seconds is a hang inside the system under test: the process aborts, leaving the
    // breadcrumbs for the supervisor (in-process phases only; child-process phases have their own limits).
    let beats: Vec<(AtomicU64, AtomicU64)> = (0..threads).map(|_| (AtomicU64::new(0), AtomicU64::new(0))).collect();
    let finished = AtomicU64::new(0);
    let hang_limit = std::env::var("VERIF_HANG_S").ok().and_then(|s| s.parse::<u64>().ok()).unwrap_or(20);
    let watch = phase.chunk() > 1;
    std::thread::scope(|scope| {
        if watch {
            let (beats, finished) = (&beats, &finished);
            let name = phase.name();
            scope.spawn(move || {
                let mut last: Vec<(u64, std::time::Instant)> = beats.iter().map(|b| (b.0.load(Ordering::Relaxed), std::time::Instant::now())).collect();
                while finished.load(Ordering::SeqCst) < threads as u64 {
                    std::thread::sleep(std::time::Duration::from_millis(200));
                    for (w, b) in beats.iter().enumerate() {
                        let n = b.0.load(Ordering::Relaxed);
                        if n != last[w].0 || b.1.load(Ordering::Relaxed) == 0 { last[w] = (n, std::time::Instant::now()); }
                        else if last[w].1.elapsed().as_secs() >= hang_limit {
                            let run = b.1.load(Ordering::Relaxed).saturating_sub(1);
                            println!("HANG: worker {} of phase {} has been inside run {} for {} s; aborting so that the supervisor can confirm it in isolation", w, name, run, hang_limit);
                            // narrow this worker's breadcrumb to the exact run, clear the others
                            for x in 0..threads { if x != w { crumbs.clear(x); } }
                            crumbs.mark(w, name, run, run + 1);
                            if let Ok(p) = std::env::var("VERIF_HANG_FLAG") { let _ = std::fs::write(p, format!("{} {}", name, run)); }
                            std::process::abort();
                        }
                    }
                }
            });
        }
        for w in 0..threads {
            let (next, stop_at, merged, samples, beats, finished) = (&next, &stop_at, &merged, &samples, &beats, &finished);
            std::thread::Builder::new().stack_size(WORKER_STACK).name(format!("sim-worker-{}", w)).spawn_scoped(scope, move || {
                let mut st = Stats::default();
                if log_runs { st.runlog = Some(vec![]); }
                let mut found: Vec<Found> = vec![];
                let mut done = 0u64;
                loop {
                    let a = next.fetch_add(chunk, Ordering::SeqCst);
                    if a >= range.1 || a >= stop_at.load(Ordering::SeqCst) { break; }
                    let b = (a + chunk).min(range.1);
                    crumbs.mark(w, phase.name(), a, b);
                    for run in a..b {
                        if run >= stop_at.load(Ordering::Relaxed) { break; }
                        let g = phase.generate(seed, run);
                        beats[w].1.store(run + 1, Ordering::Relaxed);
                        // (the engines contain the library's panics themselves; one that arrives here is a bug of the
                        // harness — say so at once instead of leaving a dead worker for the watchdog to find)
                        let ex = match std::panic::catch_unwind(std::panic::AssertUnwindSafe(|| phase.execute(&g, run, &mut st))) {
                            Ok(ex) => ex,
                            Err(p) => {
                                let msg = if let Some(s) = p.downcast_ref::<&str>() { s.to_string() } else if let Some(s) = p.downcast_ref::<String>() { s.clone() } else { "(no message)".to_string() };
                                println!("HARNESS-ERROR: phase {} run {}: a panic escaped the engine's containment: {}", phase.name(), run, msg);
                                std::process::exit(2);
                            }
                        };
                        beats[w].1.store(0, Ordering::Relaxed);
                        beats[w].0.fetch_add(1, Ordering::Relaxed);
                        let sc = g.sc;
                        st.evaluations += 1;
                        done += 1;
                        if ex.nontrivial && (!sample_digests || ex.digest & 15 == 0) { st.digests_nontrivial.push(ex.digest); }
                        if let Some(log) = st.runlog.as_mut() { log.push((run, ex.digest, ex.outcome)); }
                        if samples.contains(&run) { st.samples.insert(run, sc.sample_json()); }
                        if let Some(v) = ex.violation {
                            stop_at.fetch_min(run + 1, Ordering::SeqCst);
                            match found.iter_mut().find(|f| f.violation.check_id == v.check_id) {
                                Some(f) if f.run <= run => {}
                                Some(f) => *f = Found { run, scenario: sc, violation: v },
                                None => found.push(Found { run, scenario: sc, violation: v }),
                            }
                        }
                    }
                    crumbs.clear(w);
                }
                let mut m = merged.lock().unwrap();
                m.0.merge(st);
                for f in found {
                    match m.1.iter_mut().find(|g| g.violation.check_id == f.violation.check_id) {
                        Some(g) if g.run <= f.run => {}
                        Some(g) => *g = f,
                        None => m.1.push(f),
                    }
                }
                m.2 += done;
                drop(m);
                finished.fetch_add(1, Ordering::SeqCst);
            }).expect("spawn worker");
        }
    });
    let (stats, mut found, runs_done) = merged.into_inner().unwrap();
    found.sort_by_key(|f| f.run);
    PhaseResult { stats, found, runs_done, wall_s: t0.elapsed().as_secs_f64() }
}
