pub mod json;
pub mod rng;
pub mod runner;
pub mod stats;
pub mod report;
pub mod shrink;
