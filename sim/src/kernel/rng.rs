//! The only source of randomness of the simulator: one integer decides everything.
//! run `i` of phase `p` under VERIF_SEED `s` owns `Rng::for_run(s, p, i)`.

#[inline]
pub fn splitmix64(state: &mut u64) -> u64 {
    *state = state.wrapping_add(0x9e37_79b9_7f4a_7c15);
    let mut z = *state;
    z = (z ^ (z >> 30)).wrapping_mul(0xbf58_476d_1ce4_e5b9);
    z = (z ^ (z >> 27)).wrapping_mul(0x94d0_49bb_1331_11eb);
    z ^ (z >> 31)
}

/// xoshiro256** seeded through splitmix64.
#[derive(Clone, Debug)]
pub struct Rng {
    s: [u64; 4],
}

impl Rng {
    pub fn new(seed: u64) -> Self {
        let mut st = seed;
        let s = [
            splitmix64(&mut st),
            splitmix64(&mut st),
            splitmix64(&mut st),
            splitmix64(&mut st),
        ];
        Rng { s }
    }

    /// Generator of run `run` of phase `phase` under `seed`.
    pub fn for_run(seed: u64, phase: u64, run: u64) -> Self {
        let mut st = seed ^ 0x6a09_e667_f3bc_c908;
        let a = splitmix64(&mut st);
        let mut st2 = a ^ phase.wrapping_mul(0xd6e8_feb8_6659_fd93);
        let b = splitmix64(&mut st2);
        let mut st3 = b ^ run.wrapping_mul(0xa076_1d64_78bd_642f);
        Rng::new(splitmix64(&mut st3))
    }

    #[inline]
    pub fn next_u64(&mut self) -> u64 {
        let result = self.s[1].wrapping_mul(5).rotate_left(7).wrapping_mul(9);
        let t = self.s[1] << 17;
        self.s[2] ^= self.s[0];
        self.s[3] ^= self.s[1];
        self.s[1] ^= self.s[2];
        self.s[0] ^= self.s[3];
        self.s[2] ^= t;
        self.s[3] = self.s[3].rotate_left(45);
        result
    }

    /// Uniform in `0..n` (`n > 0`), by widening multiplication (bias < 2^-32 for the small
    /// `n` used here, and — what matters — a pure function of the generator state).
    #[inline]
    pub fn below(&mut self, n: u64) -> u64 {
        debug_assert!(n > 0);
        (((self.next_u64() as u128) * (n as u128)) >> 64) as u64
    }

    #[inline]
    pub fn usize_below(&mut self, n: usize) -> usize {
        self.below(n as u64) as usize
    }

    /// Uniform in `lo..=hi`.
    #[inline]
    pub fn range(&mut self, lo: u64, hi: u64) -> u64 {
        lo + self.below(hi - lo + 1)
    }

    #[inline]
    pub fn urange(&mut self, lo: usize, hi: usize) -> usize {
        self.range(lo as u64, hi as u64) as usize
    }

    /// True with probability `num/den`.
    #[inline]
    pub fn chance(&mut self, num: u64, den: u64) -> bool {
        self.below(den) < num
    }

    #[inline]
    pub fn pick<'a, T>(&mut self, xs: &'a [T]) -> &'a T {
        &xs[self.usize_below(xs.len())]
    }

    /// Index drawn according to integer weights (at least one weight must be non-zero).
    pub fn weighted(&mut self, weights: &[u32]) -> usize {
        let total: u64 = weights.iter().map(|w| *w as u64).sum();
        let mut x = self.below(total);
        for (i, w) in weights.iter().enumerate() {
            if x < *w as u64 {
                return i;
            }
            x -= *w as u64;
        }
        unreachable!()
    }
}

/// FNV-1a based 64-bit digest builder used for event-log / scenario digests. Never iterates a
/// hash container, never reads a clock.
#[derive(Clone, Copy)]
pub struct Digest(pub u64);

impl Default for Digest {
    fn default() -> Self {
        Digest(0xcbf2_9ce4_8422_2325)
    }
}

impl Digest {
    #[inline]
    pub fn u8(&mut self, b: u8) {
        self.0 ^= b as u64;
        self.0 = self.0.wrapping_mul(0x0000_0100_0000_01b3);
    }
    #[inline]
    pub fn u64(&mut self, x: u64) {
        // mix whole words: cheaper than byte-wise FNV, still order sensitive
        self.0 = (self.0 ^ x).wrapping_mul(0x9e37_79b9_7f4a_7c15);
        self.0 ^= self.0 >> 29;
    }
    #[inline]
    pub fn usize(&mut self, x: usize) {
        self.u64(x as u64)
    }
    pub fn bytes(&mut self, bs: &[u8]) {
        self.u64(bs.len() as u64);
        for b in bs {
            self.u8(*b);
        }
    }
    pub fn str(&mut self, s: &str) {
        self.bytes(s.as_bytes())
    }
    pub fn finish(self) -> u64 {
        let mut s = self.0;
        splitmix64(&mut s)
    }
}
