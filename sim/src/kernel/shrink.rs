//! Greedy minimisation: keep any candidate on which the *same check id* still fires.
use crate::scenario::Scenario;

pub struct ShrinkOutcome {
    pub scenario: Scenario,
    pub message: String,
    pub executions: u64,
    pub from_size: usize,
}

/// `fails(sc)` returns `Some((check_id, message))` when `sc` violates.
pub fn shrink(
    start: Scenario,
    check_id: &str,
    first_message: String,
    candidates: &dyn Fn(&Scenario) -> Vec<Scenario>,
    fails: &dyn Fn(&Scenario) -> Option<(String, String)>,
    budget: u64,
) -> ShrinkOutcome {
    let from_size = start.size();
    let mut cur = start;
    let mut msg = first_message;
    let mut execs = 0u64;
    let t0 = std::time::Instant::now();
    'outer: loop {
        for cand in candidates(&cur) {
            // bounded in executions and in wall time (a minimiser must never become the long pole)
            if execs >= budget || t0.elapsed().as_secs() > 300 { break 'outer; }
            execs += 1;
            if let Some((id, m)) = fails(&cand) {
                if id == check_id {
                    cur = cand;
                    msg = m;
                    continue 'outer;
                }
            }
        }
        break;
    }
    ShrinkOutcome { scenario: cur, message: msg, executions: execs, from_size }
}

/// Generic list reductions: remove chunks (halves, quarters, ..., singles). Yields index ranges
/// to delete, biggest first.
pub fn removal_ranges(n: usize) -> Vec<(usize, usize)> {
    let mut out = vec![];
    if n == 0 { return out; }
    let mut size = n;
    loop {
        size = (size + 1) / 2;
        let mut a = 0;
        while a < n {
            let b = (a + size).min(n);
            if b - a < n { out.push((a, b)); }
            a = b;
        }
        if size == 1 { break; }
    }
    out
}
