//! Greedy minimisation: keep any candidate on which the *same check id* still fires.
use crate::scenario::Scenario;

pub struct ShrinkOutcome {
    pub scenario: Scenario,
    pub message: String,
    pub executions: u64,
    pub from_size: usize,
}

/// `fails(sc)` returns `Some((check_id, message))` when `sc` violates.
pub fn shrink(
    start: Scenario,
    check_id: &str,
    first_message: String,
    candidates: &dyn Fn(&Scenario) -> Vec<Scenario>,
    fails: &dyn Fn(&Scenario) -> Option<(String, String)>,
    budget: u64,
) -> ShrinkOutcome {
    let from_size = start.size();
    let mut cur = start;
    let mut msg = first_message;
    let mut execs = 0u64;
    let t0 = std::time::Instant::now();
    // Passes over the candidate list; after a success the scan continues at the same index of the
    // regenerated list (the list keeps its order: bigger removals first), so a long scenario is not
    // re-scanned from its start after every single removal. Stops when a whole pass changes nothing.
    let mut start = 0usize;
    let mut progressed_this_pass = false;
    'outer: loop {
        let cands = candidates(&cur);
        let mut i = start.min(cands.len());
        let mut advanced = false;
        while i < cands.len() {
            // bounded in executions and in wall time (a minimiser must never become the long pole)
            if execs >= budget || t0.elapsed().as_secs() > 60 { break 'outer; }
            execs += 1;
            if let Some((id, m)) = fails(&cands[i]) {
                if id == check_id {
                    cur = cands[i].clone();
                    msg = m;
                    start = i;
                    progressed_this_pass = true;
                    advanced = true;
                    break;
                }
            }
            i += 1;
        }
        if advanced { continue; }
        if progressed_this_pass { progressed_this_pass = false; start = 0; continue; }
        break;
    }
    ShrinkOutcome { scenario: cur, message: msg, executions: execs, from_size }
}

/// Generic list reductions: remove chunks (halves, quarters, ..., singles). Yields index ranges
/// to delete, biggest first.
pub fn removal_ranges(n: usize) -> Vec<(usize, usize)> {
    let mut out = vec![];
    if n == 0 { return out; }
    let mut size = n;
    loop {
        size = (size + 1) / 2;
        let mut a = 0;
        while a < n {
            let b = (a + size).min(n);
            if b - a < n { out.push((a, b)); }
            a = b;
        }
        if size == 1 { break; }
    }
    out
}
