//! Evidence files, replay files, known findings.
use super::json::J;
use crate::scenario::Scenario;

pub fn verif_root() -> String {
    // the binary lives in <root>/sim/target/release/jsim
    if let Ok(r) = std::env::var("VERIF_ROOT") { return r; }
    if let Ok(exe) = std::env::current_exe() {
        if let Some(root) = exe.ancestors().nth(4) {
            if root.join("sim").is_dir() { return root.to_string_lossy().into_owned(); }
        }
    }
    "/verif".to_string()
}

pub fn state_dir() -> String {
    let d = format!("{}/.state", verif_root());
    let _ = std::fs::create_dir_all(&d);
    d
}

pub fn write_evidence(property: &str, j: &J) -> std::io::Result<String> {
    let dir = format!("{}/evidence", verif_root());
    std::fs::create_dir_all(&dir)?;
    let path = format!("{}/{}.json", dir, property);
    let tmp = format!("{}.tmp", path);
    std::fs::write(&tmp, j.to_string_pretty())?;
    std::fs::rename(&tmp, &path)?;
    Ok(path)
}

pub struct ReplayFile {
    pub property: String,
    pub check_id: String,
    pub engine: String,
    pub scenario: Scenario,
    pub message: String,
    pub json: J,
}

#[allow(clippy::too_many_arguments)]
pub fn replay_json(property: &str, check_id: &str, seed: u64, tier: &str, phase: &str, run: u64, sc: &Scenario, message: &str, minimised_from: usize, shrink_execs: u64) -> J {
    J::Obj(vec![
        ("property".into(), J::from(property)),
        ("check_id".into(), J::from(check_id)),
        ("seed".into(), J::UInt(seed)),
        ("tier".into(), J::from(tier)),
        ("phase".into(), J::from(phase)),
        ("run".into(), J::UInt(run)),
        ("engine".into(), J::from(sc.engine())),
        ("message".into(), J::from(message)),
        ("minimised_from".into(), J::Obj(vec![("size".into(), J::UInt(minimised_from as u64)), ("size_now".into(), J::UInt(sc.size() as u64)), ("shrink_executions".into(), J::UInt(shrink_execs))])),
        ("scenario".into(), sc.to_json()),
    ])
}

pub fn write_replay(j: &J) -> std::io::Result<String> {
    let dir = format!("{}/replays", verif_root());
    std::fs::create_dir_all(&dir)?;
    let property = j.get("property").and_then(J::as_str).unwrap_or("X");
    let seed = j.get("seed").and_then(J::as_u64).unwrap_or(0);
    let check = j.get("check_id").and_then(J::as_str).unwrap_or("x").replace('.', "_");
    let mut n = 0;
    loop {
        let path = format!("{}/{}-{}-{}-{}.json", dir, property, check, seed, n);
        if !std::path::Path::new(&path).exists() {
            std::fs::write(&path, j.to_string_pretty())?;
            return Ok(path);
        }
        n += 1;
    }
}

pub fn read_replay(path: &str) -> Result<ReplayFile, String> {
    let text = std::fs::read_to_string(path).map_err(|e| format!("{}: {}", path, e))?;
    let j = J::parse(&text)?;
    let property = j.get("property").and_then(J::as_str).ok_or("property")?.to_string();
    let check_id = j.get("check_id").and_then(J::as_str).ok_or("check_id")?.to_string();
    let engine = j.get("engine").and_then(J::as_str).ok_or("engine")?.to_string();
    let message = j.get("message").and_then(J::as_str).unwrap_or("").to_string();
    let scenario = Scenario::from_json(&engine, j.get("scenario").ok_or("scenario")?)?;
    Ok(ReplayFile { property, check_id, engine, scenario, message, json: j })
}

#[derive(Clone, Debug)]
pub struct KnownEntry {
    pub status: String, // "known" | "fixed"
    pub property: String,
    pub check_id: String,
    pub predicate: String,
    pub replay: String,
    pub what: String,
    pub commit: String,
}

pub fn load_known() -> Result<Vec<KnownEntry>, String> {
    let path = format!("{}/known_findings.json", verif_root());
    let text = match std::fs::read_to_string(&path) { Ok(t) => t, Err(_) => return Ok(vec![]) };
    let j = J::parse(&text).map_err(|e| format!("known_findings.json: {}", e))?;
    let mut out = vec![];
    for e in j.get("findings").and_then(J::as_arr).unwrap_or(&[]) {
        let s = |k: &str| e.get(k).and_then(J::as_str).unwrap_or("").to_string();
        out.push(KnownEntry { status: s("status"), property: s("property"), check_id: s("check_id"), predicate: s("predicate"), replay: s("replay"), what: s("what"), commit: s("commit") });
    }
    Ok(out)
}
