//! Per-worker statistics; merging is commutative, so results do not depend on which worker ran
//! which chunk.
use super::json::J;
use std::collections::BTreeMap;

#[derive(Default)]
pub struct Stats {
    pub counters: BTreeMap<&'static str, u64>,
    /// coverage matrix: (row, column, result) -> count; meaning of the axes is per check
    pub matrix: BTreeMap<(u8, u8, u8), u64>,
    /// digests of all cases / of the non-trivial cases (deduplicated at the end)
    pub digests_nontrivial: Vec<u64>,
    pub extra_digests: BTreeMap<&'static str, Vec<u64>>,
    /// a few actual cases, keyed by run index so that the selection is deterministic
    pub samples: BTreeMap<u64, J>,
    /// unclaimed divergences etc.: (kind -> (count, first example by run index))
    pub notes: BTreeMap<&'static str, (u64, Option<(u64, String)>)>,
    pub evaluations: u64,
    pub max: BTreeMap<&'static str, u64>,
    /// (run, scenario digest, outcome digest) — only kept by the determinism self-test
    pub runlog: Option<Vec<(u64, u64, u64)>>,
}

impl Stats {
    #[inline]
    pub fn bump(&mut self, k: &'static str) { *self.counters.entry(k).or_insert(0) += 1; }
    #[inline]
    pub fn add(&mut self, k: &'static str, n: u64) { *self.counters.entry(k).or_insert(0) += n; }
    #[inline]
    pub fn cell(&mut self, a: u8, b: u8, c: u8) { *self.matrix.entry((a, b, c)).or_insert(0) += 1; }
    pub fn maxi(&mut self, k: &'static str, v: u64) { let e = self.max.entry(k).or_insert(0); if v > *e { *e = v } }
    pub fn note(&mut self, k: &'static str, run: u64, example: impl FnOnce() -> String) {
        let e = self.notes.entry(k).or_insert((0, None));
        e.0 += 1;
        match &e.1 { Some((r, _)) if *r <= run => {} _ => e.1 = Some((run, example())) }
    }
    pub fn extra(&mut self, k: &'static str, d: u64) { self.extra_digests.entry(k).or_default().push(d); }

    pub fn merge(&mut self, o: Stats) {
        for (k, v) in o.counters { *self.counters.entry(k).or_insert(0) += v; }
        for (k, v) in o.matrix { *self.matrix.entry(k).or_insert(0) += v; }
        self.digests_nontrivial.extend(o.digests_nontrivial);
        for (k, v) in o.extra_digests { self.extra_digests.entry(k).or_default().extend(v); }
        for (k, v) in o.samples { self.samples.entry(k).or_insert(v); }
        for (k, (n, ex)) in o.notes {
            let e = self.notes.entry(k).or_insert((0, None));
            e.0 += n;
            if let Some((r, s)) = ex { match &e.1 { Some((r0, _)) if *r0 <= r => {} _ => e.1 = Some((r, s)) } }
        }
        self.evaluations += o.evaluations;
        for (k, v) in o.max { self.maxi(k, v); }
        if let Some(l) = o.runlog { self.runlog.get_or_insert_with(Vec::new).extend(l); }
    }

    pub fn distinct_nontrivial(&mut self) -> u64 {
        self.digests_nontrivial.sort_unstable();
        self.digests_nontrivial.dedup();
        self.digests_nontrivial.len() as u64
    }
    pub fn distinct_extra(&mut self, k: &'static str) -> u64 {
        match self.extra_digests.get_mut(k) { Some(v) => { v.sort_unstable(); v.dedup(); v.len() as u64 } None => 0 }
    }
}
