//! Minimal JSON value, writer and reader for evidence and replay files. Independent of the
//! system under test (a replay file must be readable even when the parser under test is broken).
use std::collections::BTreeMap;
use std::fmt::Write;

#[derive(Clone, Debug, PartialEq)]
pub enum J {
    Null,
    Bool(bool),
    Int(i64),
    UInt(u64),
    Float(f64),
    Str(String),
    Arr(Vec<J>),
    Obj(Vec<(String, J)>),
}

impl From<bool> for J { fn from(b: bool) -> J { J::Bool(b) } }
impl From<u64> for J { fn from(b: u64) -> J { J::UInt(b) } }
impl From<usize> for J { fn from(b: usize) -> J { J::UInt(b as u64) } }
impl From<u32> for J { fn from(b: u32) -> J { J::UInt(b as u64) } }
impl From<i64> for J { fn from(b: i64) -> J { J::Int(b) } }
impl From<f64> for J { fn from(b: f64) -> J { J::Float(b) } }
impl From<&str> for J { fn from(b: &str) -> J { J::Str(b.to_string()) } }
impl From<String> for J { fn from(b: String) -> J { J::Str(b) } }
impl<T: Into<J>> From<Vec<T>> for J { fn from(v: Vec<T>) -> J { J::Arr(v.into_iter().map(Into::into).collect()) } }
impl From<&BTreeMap<&'static str, u64>> for J {
    fn from(m: &BTreeMap<&'static str, u64>) -> J {
        J::Obj(m.iter().map(|(k, v)| (k.to_string(), J::UInt(*v))).collect())
    }
}

#[macro_export]
macro_rules! jobj {
    ($($k:expr => $v:expr),* $(,)?) => {
        $crate::kernel::json::J::Obj(vec![$(($k.to_string(), $crate::kernel::json::J::from($v))),*])
    };
}

impl J {
    pub fn get(&self, k: &str) -> Option<&J> {
        match self {
            J::Obj(es) => es.iter().find(|(n, _)| n == k).map(|(_, v)| v),
            _ => None,
        }
    }
    pub fn as_str(&self) -> Option<&str> { if let J::Str(s) = self { Some(s) } else { None } }
    pub fn as_u64(&self) -> Option<u64> {
        match self { J::UInt(u) => Some(*u), J::Int(i) if *i >= 0 => Some(*i as u64), _ => None }
    }
    pub fn as_bool(&self) -> Option<bool> { if let J::Bool(b) = self { Some(*b) } else { None } }
    pub fn as_arr(&self) -> Option<&[J]> { if let J::Arr(a) = self { Some(a) } else { None } }
    pub fn set(&mut self, k: &str, v: J) {
        if let J::Obj(es) = self {
            if let Some(e) = es.iter_mut().find(|(n, _)| n == k) { e.1 = v } else { es.push((k.to_string(), v)) }
        }
    }

    pub fn to_string_pretty(&self) -> String {
        let mut s = String::new();
        self.write(&mut s, 0, true);
        s.push('\n');
        s
    }
    pub fn to_string_compact(&self) -> String {
        let mut s = String::new();
        self.write(&mut s, 0, false);
        s
    }

    fn write(&self, out: &mut String, ind: usize, pretty: bool) {
        match self {
            J::Null => out.push_str("null"),
            J::Bool(b) => out.push_str(if *b { "true" } else { "false" }),
            J::Int(i) => { let _ = write!(out, "{}", i); }
            J::UInt(i) => { let _ = write!(out, "{}", i); }
            J::Float(f) => {
                if f.is_finite() { let _ = write!(out, "{:.3}", f); } else { out.push_str("null") }
            }
            J::Str(s) => write_str(out, s),
            J::Arr(a) => {
                // arrays of scalars stay on one line
                let scalar = a.iter().all(|x| !matches!(x, J::Arr(_) | J::Obj(_)));
                out.push('[');
                for (i, x) in a.iter().enumerate() {
                    if i > 0 { out.push(','); if scalar && pretty { out.push(' ') } }
                    if pretty && !scalar { out.push('\n'); indent(out, ind + 1); }
                    x.write(out, ind + 1, pretty && !scalar);
                }
                if pretty && !scalar && !a.is_empty() { out.push('\n'); indent(out, ind); }
                out.push(']');
            }
            J::Obj(es) => {
                out.push('{');
                for (i, (k, v)) in es.iter().enumerate() {
                    if i > 0 { out.push(','); }
                    if pretty { out.push('\n'); indent(out, ind + 1); }
                    write_str(out, k);
                    out.push(':');
                    if pretty { out.push(' '); }
                    v.write(out, ind + 1, pretty);
                }
                if pretty && !es.is_empty() { out.push('\n'); indent(out, ind); }
                out.push('}');
            }
        }
    }

    pub fn parse(text: &str) -> Result<J, String> {
        let mut p = P { b: text.as_bytes(), i: 0 };
        p.ws();
        let v = p.value()?;
        p.ws();
        if p.i != p.b.len() { return Err(format!("trailing data at {}", p.i)); }
        Ok(v)
    }
}

fn indent(out: &mut String, n: usize) { for _ in 0..n { out.push(' '); } }

fn write_str(out: &mut String, s: &str) {
    out.push('"');
    for c in s.chars() {
        match c {
            '"' => out.push_str("\\\""),
            '\\' => out.push_str("\\\\"),
            '\n' => out.push_str("\\n"),
            '\r' => out.push_str("\\r"),
            '\t' => out.push_str("\\t"),
            c if (c as u32) < 0x20 || c == '\u{7f}' || c == '\u{feff}' || c == '\u{2028}' || c == '\u{2029}' => { let _ = write!(out, "\\u{:04x}", c as u32); }
            c => out.push(c),
        }
    }
    out.push('"');
}

struct P<'a> { b: &'a [u8], i: usize }

impl<'a> P<'a> {
    fn ws(&mut self) { while self.i < self.b.len() && matches!(self.b[self.i], b' ' | b'\n' | b'\r' | b'\t') { self.i += 1; } }
    fn value(&mut self) -> Result<J, String> {
        match self.b.get(self.i) {
            None => Err("eof".into()),
            Some(b'n') => self.lit("null", J::Null),
            Some(b't') => self.lit("true", J::Bool(true)),
            Some(b'f') => self.lit("false", J::Bool(false)),
            Some(b'"') => Ok(J::Str(self.string()?)),
            Some(b'[') => {
                self.i += 1; let mut a = vec![]; self.ws();
                if self.b.get(self.i) == Some(&b']') { self.i += 1; return Ok(J::Arr(a)); }
                loop {
                    self.ws(); a.push(self.value()?); self.ws();
                    match self.b.get(self.i) { Some(b',') => self.i += 1, Some(b']') => { self.i += 1; return Ok(J::Arr(a)); } _ => return Err(format!("bad array at {}", self.i)) }
                }
            }
            Some(b'{') => {
                self.i += 1; let mut es = vec![]; self.ws();
                if self.b.get(self.i) == Some(&b'}') { self.i += 1; return Ok(J::Obj(es)); }
                loop {
                    self.ws(); let k = self.string()?; self.ws();
                    if self.b.get(self.i) != Some(&b':') { return Err(format!("expected : at {}", self.i)); }
                    self.i += 1; self.ws(); let v = self.value()?; es.push((k, v)); self.ws();
                    match self.b.get(self.i) { Some(b',') => self.i += 1, Some(b'}') => { self.i += 1; return Ok(J::Obj(es)); } _ => return Err(format!("bad object at {}", self.i)) }
                }
            }
            Some(_) => {
                let s = self.i;
                while self.i < self.b.len() && matches!(self.b[self.i], b'-' | b'+' | b'.' | b'e' | b'E' | b'0'..=b'9') { self.i += 1; }
                let t = std::str::from_utf8(&self.b[s..self.i]).unwrap();
                if t.is_empty() { return Err(format!("unexpected byte at {}", s)); }
                if let Ok(u) = t.parse::<u64>() { Ok(J::UInt(u)) } else if let Ok(i) = t.parse::<i64>() { Ok(J::Int(i)) } else { t.parse::<f64>().map(J::Float).map_err(|e| e.to_string()) }
            }
        }
    }
    fn lit(&mut self, w: &str, v: J) -> Result<J, String> {
        if self.b[self.i..].starts_with(w.as_bytes()) { self.i += w.len(); Ok(v) } else { Err(format!("bad literal at {}", self.i)) }
    }
    fn hex4(&mut self) -> Result<u32, String> {
        let t = self.b.get(self.i..self.i + 4).ok_or("eof in \\u")?;
        let t = std::str::from_utf8(t).map_err(|e| e.to_string())?;
        self.i += 4;
        u32::from_str_radix(t, 16).map_err(|e| e.to_string())
    }
    fn string(&mut self) -> Result<String, String> {
        if self.b.get(self.i) != Some(&b'"') { return Err(format!("expected string at {}", self.i)); }
        self.i += 1;
        let mut out = String::new();
        loop {
            let s = self.i;
            while self.i < self.b.len() && self.b[self.i] != b'"' && self.b[self.i] != b'\\' { self.i += 1; }
            out.push_str(std::str::from_utf8(&self.b[s..self.i]).map_err(|e| e.to_string())?);
            match self.b.get(self.i) {
                None => return Err("eof in string".into()),
                Some(b'"') => { self.i += 1; return Ok(out); }
                _ => {
                    self.i += 1;
                    let e = *self.b.get(self.i).ok_or("eof in escape")?; self.i += 1;
                    match e {
                        b'"' => out.push('"'), b'\\' => out.push('\\'), b'/' => out.push('/'),
                        b'n' => out.push('\n'), b'r' => out.push('\r'), b't' => out.push('\t'),
                        b'b' => out.push('\u{8}'), b'f' => out.push('\u{c}'),
                        b'u' => {
                            let mut cp = self.hex4()?;
                            if (0xd800..0xdc00).contains(&cp) && self.b[self.i..].starts_with(b"\\u") {
                                self.i += 2; let lo = self.hex4()?;
                                cp = 0x10000 + ((cp - 0xd800) << 10) + (lo.wrapping_sub(0xdc00) & 0x3ff);
                            }
                            out.push(char::from_u32(cp).unwrap_or('\u{fffd}'));
                        }
                        _ => return Err("bad escape".into()),
                    }
                }
            }
        }
    }
}
