//! Command line, supervisor / worker processes, crash triage, replay, evidence.
use crate::kernel::json::J;
use crate::kernel::report::{self, KnownEntry};
use crate::kernel::runner::{run_phase, Crumbs, Found, Gen, Phase, PhaseResult};
use crate::kernel::shrink::shrink;
use crate::kernel::stats::Stats;
use crate::scenario::Scenario;
use crate::object::{c06, c14};
use crate::stream::{c03, c07};
use crate::object::hist::Op;
use std::io::Read;
use std::process::{Command, Stdio};
use std::sync::Arc;
use std::time::{Duration, Instant};

pub const PROPERTIES: [&str; 4] = ["C03", "C06", "C07", "C14"];

pub struct Spec {
    pub property: &'static str,
    pub level: &'static str,
    pub phases: Vec<Box<dyn Phase>>,
    pub rule: String,
    pub assumptions: Vec<String>,
    /// names of the coverage-matrix axes: (row name, row labels), (col name, col labels), (result labels)
    pub matrix: (&'static str, Vec<&'static str>, &'static str, Vec<&'static str>, Vec<&'static str>),
    pub components_real: Vec<&'static str>,
    pub components_stub: Vec<&'static str>,
    pub crash_is_violation: bool,
}

fn env_u64(k: &str) -> Option<u64> { std::env::var(k).ok().and_then(|s| s.trim().parse().ok()) }

/// Scale factor for the seeded-search run counts (VERIF_RUNS overrides the calibrated default).
fn runs(default_quick: u64, default_thorough: u64, tier: &str) -> u64 {
    if let Some(n) = env_u64("VERIF_RUNS") { return n; }
    if tier == "thorough" { default_thorough } else { default_quick }
}

pub fn build_spec(property: &str, tier: &str, seed: u64) -> Option<Spec> {
    let thorough = tier == "thorough";
    match property {
        "C07" => {
            let docs = Arc::new(c07::Docs::build(seed, if thorough { 6000 } else { 500 }, if thorough { 160 } else { 60 }));
            let phases: Vec<Box<dyn Phase>> = vec![
                Box::new(c07::CharSweep::new(docs.clone(), if thorough { vec![0, 1, 2, 3, 4, 5] } else { vec![0, 1, 4, 5] })),
                Box::new(c07::ByteSweep::new(docs.clone())),
                Box::new(c07::Search { docs, runs: runs(8_000_000, 1_500_000_000, tier), max_items: 20_000 }),
            ];
            Some(Spec {
                property: "C07", level: "fault_enumeration", phases,
                rule: "char-sweep / byte-sweep: for every document (repository corpus <= 2 KiB, hand-written extras, seeded generated documents), every length profile, every item position and every single fault kind (End, Fail, Insert x alphabet, Flip x alphabet, Drop, Dup, Swap; byte level: Cut, 8 bit flips, splices of ill-formed and notable well-formed sequences, and for documents with multi-byte characters every byte replaced by all 256 values) one parse through a deterministically chosen entry point (entry points that take options: strict in half of the runs, each of the three relaxed combinations otherwise); seeded-search: 0-4 faults of a per-run enabled subset at positions biased to in-flight state, on corpus and generated documents up to 20k items, random delivery profile and entry point. A case is one fully explicit delivered stream (entry point, items with byte lengths, terminal event); distinct = distinct 64-bit digest of that; non-trivial = at least one injected fault lies at or before the parser's decision point (first rejected item or end of input, +1 look-ahead), i.e. the parser actually met it.".into(),
                assumptions: vec![
                    "reference viable-prefix recogniser (sim/src/stream/refpda.rs) is a faithful RFC 8259 PDA; it shares no code with the parser".into(),
                    "std::str::from_utf8 defines well-formed UTF-8 for the byte path".into(),
                    "all four option combinations; under relaxed options the surrogate clause is judged against a superset of what may be reported, and whether an option is honoured is not judged; verdict questions (C01) and panics (C03) are counted as notes, never judged here".into(),
                    "sampling, not proof: clean batch = evidence".into(),
                ],
                matrix: ("fault_kind", crate::stream::faults::FAULT_KIND_NAMES.to_vec(), "model_phase_at_fault", crate::stream::refpda::PHASE_NAMES.to_vec(), c07::RESULT_NAMES.to_vec()),
                components_real: vec!["json-syntax parser (all of src/parse) through every public entry point", "utf8-decode / byte decoding inside parse_slice*", "locspan, decoded-char, smallstr, json-number"],
                components_stub: vec!["the input stream (SimStream over the Iterator<Item = Result<DecodedChar, E>> seam): items, byte lengths, failures and end are decided by the simulator"],
                crash_is_violation: false,
            })
        }
        "C03" => {
            let docs = Arc::new(c07::Docs::build(seed, 50, 60));
            let phases: Vec<Box<dyn Phase>> = vec![
                Box::new(c03::C03Search { docs: docs.clone(), runs: runs(10_000_000, 1_500_000_000, tier), max_items: 20_000 }),
                Box::new(c03::C03CorpusBytes::new(docs)),
                Box::new(c03::C03Deep { runs: if thorough { 4000 } else { 400 }, thorough }),
            ];
            Some(Spec {
                property: "C03", level: "fault_enumeration", phases,
                rule: "hostile-stream-search: seeded runs over corpus documents, generated documents, token soup, random characters and random bytes, through all 14 entry points (the 13 of the Parse trait and Parser::new_with + parse_in under the four contexts) x 4 option sets x 5 Parse targets, with 0-5 faults (Fail, End, Flip, BitFlip, Drop, Dup, Swap, Insert with foreign byte lengths, Resume = non-fused None, FailThenResume) and random length profiles; corpus-prefixes-and-byte-edits: every prefix and every single-byte substitution (all 256 values) of every corpus document <= 2 KiB through parse_slice*; deep-nesting-small-stack: child processes parsing (and, on success, traversing) nesting depths 10^3..2*10^6 of nine shapes (open / closed arrays and objects, mixed, wide, a deep closed value embedded in a small outer document, and long runs of one token at every grammar position) x sixteen tails (clean, end / failure / wrong closer / garbage at chosen levels, after the completed root, and one generic stream fault at a boundary-biased position) inside a 64/128/256 KiB thread, the children running from an unoptimised build. A case is one explicit stream scenario or deep scenario; distinct = distinct digest; non-trivial = a fault was delivered at or before the parser's last pull (stream phases) or depth >= 1000 (deep phase).".into(),
                assumptions: vec![
                    "oracle = Ok | Err, no panic (overflow checks and debug assertions on), bounded polling (stream watchdog at items + 10 000 polls), child exit status 0 for deep scenarios".into(),
                    "hangs that never touch the stream are caught by the supervisor's wall-clock limit only".into(),
                    "dropping a successfully parsed deep value is the caller's drop glue and outside the statement: the harness disposes of values with a work list".into(),
                    "each character pulled at most once holds by construction (the stream is not Clone); confirmed by poll counters".into(),
                ],
                matrix: ("fault_kind", crate::stream::faults::FAULT_KIND_NAMES.to_vec(), "parse_target", vec!["Value", "String", "NumberBuf", "bool", "()"], c07::RESULT_NAMES.to_vec()),
                components_real: vec!["json-syntax parser through every public entry point and every Parse implementor", "Value::traverse", "utf8-decode / byte decoding"],
                components_stub: vec!["the input stream (SimStream)", "the caller's stack budget (thread of 64/128/256 KiB in a child process)"],
                crash_is_violation: true,
            })
        }
        "C06" => {
            let phases: Vec<Box<dyn Phase>> = vec![
                Box::new(c06::C06Search { runs: runs(2_000_000, 60_000_000, tier), max_len: if thorough { 400 } else { 60 } }),
                Box::new(c06::C06Small { len: if thorough { 4 } else { 3 } }),
            ];
            Some(Spec {
                property: "C06", level: "exploration", phases,
                rule: "history-search: seeded operation histories (1-24 operations, one in ten up to the tier's maximum) over a per-run key universe of 1-3 keys (dense duplicates) or 24-48 keys (several growth/rehash cycles of the raw table; inline, heap-spilled, empty, non-ASCII and shared-prefix keys), up to three registers, per-run operation weights with a random subset of the 27 operations disabled (among them extend from a source iterator that panics after k items, get_or_insert_with with a panicking default closure, from_parse, whose objects also get the eight mapped key queries checked, and clone_from); profiles: huge key universes (1/40), grow-then-drain (1/400), large objects of 1000-2600 entries (3/400), boundary-code-point keys (1/5 of the universes), a cancellation point (pull n, then drop / exhaust / unwind) on every lazily-mutating removal iterator, and a simulator-chosen hash behaviour (good, constant, 2/4/8 distinct hashes, constant control tag, constant start slot). After every operation: result vs list model, entries of every register, all ten key queries per universe key, index-dump invariants. small-universe-exhaustive (supplementary): every history up to the length bound over a 21-operation menu on keys {a,b}. A case is one explicit history; distinct = distinct digest of the operation list with arguments and hash configuration; non-trivial = the history contains a cancellation that left work to Drop (untouched / partial / unwound) or a growth of the raw table after positions had been shifted.".into(),
                assumptions: vec![
                    "the list model (sim/src/object/model.rs) pins only behaviour stated in the rustdoc or in the property's anchors: in-place replacement at the first occurrence, completion in Drop, removal order by position".into(),
                    "mem::forget of a mutating iterator is not injected (leaking is not among the listed operations)".into(),
                    "value comparison is an independent structural walk deferring only to leaf ==".into(),
                    "the simulator-owned hash builder replaces ahash's process-global random state (hook); sampling, not proof".into(),
                ],
                matrix: ("operation", Op::NAMES.to_vec(), "-", vec!["applied"], vec!["count"]),
                components_real: vec!["json_syntax::Object / object::index_map (all of src/object) through the public API", "hashbrown RawTable", "smallstr keys", "Value (clone, Display, Ord for sort)"],
                components_stub: vec!["the hash builder of the key index (SimHashBuilder behind cfg(json_syntax_verif)): seed and behaviour chosen by the simulator", "the consumer of removal iterators (cancellation points)"],
                crash_is_violation: true,
            })
        }
        "C14" => {
            let phases: Vec<Box<dyn Phase>> = vec![Box::new(c14::C14Search { runs: runs(600_000, 20_000_000, tier), max_len: if thorough { 200 } else { 40 } })];
            Some(Spec {
                property: "C14", level: "exploration", phases,
                rule: "twin-history-search: the C06 workload (seeded histories with cancellation points and simulator-chosen hash behaviour); at 1-3 checkpoints per history the object's own observed entry list is rebuilt by ten other routes (from_vec, pushes, reversed push_front, chunked extend, superset with junk entries removed again under random cancellation, clone, into_iter/collect, null-then-iter_mut, inserts, Clone::clone_from onto an object with another history) each under a fresh hash seed and mode, and object, Value::Object and Value::Array wrappers must be ==, compare Equal both ways (cmp and partial_cmp) and hash identically under SipHash and FNV-1a; nine kinds of near copies (one value, one nested leaf, one key changed / replaced / shifted to another plane, entry duplicated, removed, adjacent swapped; position biased to the ends) must be unequal, not Equal, antisymmetric; a pool of up to 16 snapshots, near copies and plain values is checked pairwise (== iff structurally identical by an independent walk, Equal iff ==, antisymmetry, partial_cmp agrees, equal => same hash) and triple-wise (transitivity); the same laws over a second pool of twelve values per run that carry keys / strings / number spellings / short arrays of lengths 0..40 bytes around the 16-byte inline capacity, with shared prefixes and one-bit siblings (key and leaf order on their own). A case is one history with its twin seed; distinct = distinct digest; non-trivial = at least one compared twin had an index dump (bucket count or bucket contents) different from the original's, i.e. the internal state really differed when equality was asked.".into(),
                assumptions: vec![
                    "ground truth is the object's own observed entry list, never the C06 model; twins whose construction does not reproduce that list are skipped (a C06 matter)".into(),
                    "no particular order is required, only the laws; unequal values may hash alike".into(),
                    "structural identity defers to the leaf types' own == (json-number, smallstr)".into(),
                ],
                matrix: ("twin_route", vec!["from_vec", "push_in_order", "push_front_in_reverse", "chunked_extend", "superset_then_remove_junk", "clone", "into_iter_collect", "null_then_iter_mut", "insert_in_order_if_unique_keys", "clone_from_onto_other_history"], "-", vec!["compared"], vec!["count"]),
                components_real: vec!["Eq / Ord / PartialOrd / Hash of json_syntax::Object, Value, Entry", "Object operations used to reach states"],
                components_stub: vec!["the hash builder of the key index (seed and behaviour per object chosen by the simulator)"],
                crash_is_violation: false,
            })
        }
        _ => None,
    }
}

/// Execute one explicit scenario under a property's oracle (replay, shrinking).
pub fn judge_scenario(property: &str, sc: &Scenario) -> Result<Option<(String, String)>, String> {
    let mut st = Stats::default();
    let v = match (property, sc) {
        ("C07", Scenario::Stream(s)) => {
            if !s.ends_at_terminal() || s.entry == crate::stream::tape::Entry::ParseIn { return Err("not a C07 scenario (nothing delivered after the first terminal event, not the parse_in entry)".into()); }
            c07::execute_c07(s, 0, &mut st, 0, None).violation
        }
        ("C03", Scenario::Stream(s)) => c03::execute_c03(s, 0, &mut st, 0, None).violation,
        ("C03", Scenario::Deep(d)) => c03::execute_deep(d, &mut st, Duration::from_secs(900)).violation,
        ("C06", Scenario::Hist(h)) => c06::run_c06(h, &mut st).violation,
        ("C14", Scenario::Hist(h)) => c14::run_c14(h, &mut st).violation,
        (p, s) => return Err(format!("no oracle for property {} on engine {}", p, s.engine())),
    };
    Ok(v.map(|v| (v.check_id, v.message)))
}

fn silent_panics() { std::panic::set_hook(Box::new(|_| {})); }

fn threads() -> usize {
    env_u64("VERIF_THREADS").map(|n| n as usize).unwrap_or_else(|| std::thread::available_parallelism().map(|n| n.get()).unwrap_or(4)).max(1)
}

pub fn main(args: &[String]) -> i32 {
    let a: Vec<&str> = args.iter().map(|s| s.as_str()).collect();
    match a.as_slice() {
        ["--deep-child", json] => crate::stream::deep::child_main(json),
        ["--worker", p, tier] => worker(p, tier),
        ["--range", p, tier, phase, x, y, log] => range_cmd(p, tier, phase, x.parse().unwrap_or(0), y.parse().unwrap_or(0), *log == "log"),
        ["--dump", p, tier, phase, run] => dump_cmd(p, tier, phase, run.parse().unwrap_or(0)),
        ["--replay-inner", file] => replay_inner(file),
        ["replay", file] => replay_outer(file),
        ["selftest-determinism"] => selftest_determinism(&[]),
        ["selftest-determinism", rest @ ..] => selftest_determinism(rest),
        [p, tier] if PROPERTIES.contains(p) && (*tier == "quick" || *tier == "thorough") => supervisor(p, tier),
        [p] if PROPERTIES.contains(p) => { let t = std::env::var("VERIF_TIER").unwrap_or_else(|_| "quick".into()); supervisor(p, if t == "thorough" { "thorough" } else { "quick" }) }
        _ => { eprintln!("usage: jsim <C03|C06|C07|C14> <quick|thorough> | replay <file> | selftest-determinism"); 2 }
    }
}

// ---------------------------------------------------------------------------------------------
// worker: all phases in-process
// ---------------------------------------------------------------------------------------------

fn hang_flag_path(property: &str) -> String { format!("{}/{}.hang", report::state_dir(), property) }
fn crumbs_path(property: &str) -> String { format!("{}/{}.crumbs", report::state_dir(), property) }

fn known_matches(e: &KnownEntry, property: &str, check_id: &str, sc: &Scenario) -> bool {
    e.status == "known" && e.property == property && e.check_id == check_id && known_predicate(&e.predicate, sc)
}

/// Scenario-class predicates of known findings (none registered: every confirmed finding so far
/// has been repaired, see DESIGN.md section 8).
pub fn known_predicate(name: &str, _sc: &Scenario) -> bool {
    match name {
        "" | "any" => true,
        _ => false,
    }
}

fn worker(property: &str, tier: &str) -> i32 {
    silent_panics();
    let t0 = Instant::now();
    let seed = crate::seed();
    println!("VERIF_SEED={} property={} tier={} threads={}", seed, property, tier, threads());
    let spec = match build_spec(property, tier, seed) { Some(s) => s, None => { println!("HARNESS-ERROR: unknown property {}", property); return 2; } };
    let known = match report::load_known() { Ok(k) => k, Err(e) => { println!("HARNESS-ERROR: {}", e); return 2; } };
    let crumbs = Crumbs::open(&crumbs_path(property));
    let mut results: Vec<(usize, PhaseResult)> = vec![];
    for (i, ph) in spec.phases.iter().enumerate() {
        let r = run_phase(ph.as_ref(), seed, (0, ph.runs()), threads(), &crumbs, false);
        println!("phase {:<34} runs {:>11} of {:>11}  wall {:>7.1}s  violations {}", ph.name(), r.runs_done, ph.runs(), r.wall_s, r.found.len());
        results.push((i, r));
    }
    let mut exit = 0;
    let mut violations = 0u64;
    let mut known_lines = 0u64;

    // listed findings: replay each explicitly
    for e in known.iter().filter(|e| e.property == property) {
        let path = format!("{}/{}", report::verif_root(), e.replay);
        let rf = match report::read_replay(&path) { Ok(r) => r, Err(err) => { println!("HARNESS-ERROR: known finding replay {}: {}", path, err); return 2; } };
        let res = replay_contained(property, &rf.scenario);
        match (e.status.as_str(), res) {
            ("known", Some((id, _))) if id == e.check_id => { println!("KNOWN-FINDING: property={} {} [{}]", property, e.what, e.replay); known_lines += 1; }
            ("known", _) => println!("NOTE: listed finding no longer reproduces: {} [{}]", e.what, e.replay),
            ("fixed", Some((id, msg))) => {
                println!("regression of a repaired finding ({} {}): {} {}", e.commit, e.what, id, msg);
                println!("VIOLATION property={} replay={}", property, path);
                violations += 1; exit = 1;
            }
            _ => {}
        }
    }

    // violations found by search
    for (i, r) in &results {
        let ph = spec.phases[*i].as_ref();
        for f in &r.found {
            match report_found(&spec, ph, tier, seed, f, &known) {
                Reported::Violation => { violations += 1; exit = 1; }
                Reported::Known => { known_lines += 1; }
                Reported::HarnessError => return 2,
            }
        }
    }

    let wall = t0.elapsed().as_secs_f64();
    let ev = evidence_json(&spec, tier, seed, &mut results, wall, violations, known_lines);
    match report::write_evidence(property, &ev) { Ok(p) => println!("evidence: {}", p), Err(e) => { println!("HARNESS-ERROR: cannot write evidence: {}", e); return 2; } }
    println!("{} {} seed {}: {} (wall {:.1}s)", property, tier, seed, if exit == 0 { "held on everything explored" } else { "VIOLATED" }, wall);
    exit
}

enum Reported { Violation, Known, HarnessError }

fn report_found(spec: &Spec, ph: &dyn Phase, tier: &str, seed: u64, f: &Found, known: &[KnownEntry]) -> Reported {
    let property = spec.property;
    let deep = matches!(f.scenario, Scenario::Deep(_));
    let fails = |sc: &Scenario| -> Option<(String, String)> { judge_scenario(property, sc).ok().flatten() };
    let cands = |sc: &Scenario| ph.shrink_candidates(sc);
    let out = shrink(f.scenario.clone(), &f.violation.check_id, f.violation.message.clone(), &cands, &fails, if deep { 12 } else { 20_000 });
    if let Some(e) = known.iter().find(|e| known_matches(e, property, &f.violation.check_id, &out.scenario)) {
        println!("KNOWN-FINDING: property={} {} (found again by search: phase {} run {})", property, e.what, ph.name(), f.run);
        return Reported::Known;
    }
    let j = report::replay_json(property, &f.violation.check_id, seed, tier, ph.name(), f.run, &out.scenario, &out.message, out.from_size, out.executions);
    let path = match report::write_replay(&j) { Ok(p) => p, Err(e) => { println!("HARNESS-ERROR: cannot write replay file: {}", e); return Reported::HarnessError; } };
    // the replay must reproduce in a fresh process, otherwise this is a harness error, never an alarm
    match run_replay_process(&path) {
        Some((1, out_text)) if out_text.contains(&format!("check_id={}", f.violation.check_id)) => {}
        other => { println!("HARNESS-ERROR: replay of {} in a fresh process did not reproduce {} (got {:?})", path, f.violation.check_id, other.map(|o| o.0)); return Reported::HarnessError; }
    }
    println!("violation {} (phase {}, run {}, minimised from size {} to {} in {} executions): {}", f.violation.check_id, ph.name(), f.run, out.from_size, out.scenario.size(), out.executions, out.message);
    println!("VIOLATION property={} replay={}", property, path);
    Reported::Violation
}

fn run_replay_process(path: &str) -> Option<(i32, String)> {
    let exe = std::env::current_exe().ok()?;
    let o = Command::new(exe).arg("replay").arg(path).stdin(Stdio::null()).output().ok()?;
    Some((o.status.code().unwrap_or(-1), String::from_utf8_lossy(&o.stdout).into_owned()))
}

fn evidence_json(spec: &Spec, tier: &str, seed: u64, results: &mut [(usize, PhaseResult)], wall: f64, violations: u64, known_lines: u64) -> J {
    let mut total = Stats::default();
    let mut phases = vec![];
    let mut evaluations = 0u64;
    for (i, r) in results.iter_mut() {
        let ph = spec.phases[*i].as_ref();
        let dn = r.stats.distinct_nontrivial();
        evaluations += r.runs_done;
        phases.push(J::Obj(vec![
            ("name".into(), J::from(ph.name())), ("runs_planned".into(), J::UInt(ph.runs())), ("runs_done".into(), J::UInt(r.runs_done)),
            ("truncated".into(), J::Bool(r.runs_done < ph.runs())),
            ("distinct_nontrivial".into(), J::UInt(dn)), ("distinct_counting".into(), J::from(if ph.runs() > crate::kernel::runner::DIGEST_EXACT_LIMIT { "lower bound: distinct digests counted on the 1/16 sub-sample digest % 16 == 0 only" } else { "exact (sort + dedup of all 64-bit digests)" })), ("wall_s".into(), J::Float(r.wall_s)),
            ("runs_per_hour".into(), J::UInt(if r.wall_s > 0.0 { (r.runs_done as f64 / r.wall_s * 3600.0) as u64 } else { 0 })),
        ]));
        let st = std::mem::take(&mut r.stats);
        total.merge(st);
    }
    let distinct = total.distinct_nontrivial();
    let mut samples: Vec<J> = total.samples.values().cloned().collect();
    samples.truncate(12);
    // coverage matrix with names
    let (rn, rows, cn, cols, res) = &spec.matrix;
    let mut matrix = vec![];
    let mut empty_rows = vec![];
    for (ri, rname) in rows.iter().enumerate() {
        let mut row = vec![];
        for (ci, cname) in cols.iter().enumerate() {
            let mut cell = vec![];
            for (xi, xname) in res.iter().enumerate() {
                if let Some(n) = total.matrix.get(&(ri as u8, ci as u8, xi as u8)) { cell.push((xname.to_string(), J::UInt(*n))); }
            }
            if !cell.is_empty() { row.push((cname.to_string(), J::Obj(cell))); }
        }
        if row.is_empty() { if !(spec.property == "C07" && (*rname == "Resume" || *rname == "FailThenResume")) { empty_rows.push(J::from(*rname)); } } else { matrix.push((rname.to_string(), J::Obj(row))); }
    }
    let notes = J::Obj(total.notes.iter().map(|(k, (n, ex))| (k.to_string(), J::Obj(vec![("count".into(), J::UInt(*n)), ("first_example".into(), ex.as_ref().map(|e| J::from(e.1.as_str())).unwrap_or(J::Null))]))).collect());
    let extra = J::Obj(total.extra_digests.keys().cloned().collect::<Vec<_>>().into_iter().map(|k| (k.to_string(), J::UInt(total.distinct_extra(k)))).collect());
    let coverage = J::Obj(vec![
        ("evaluations".into(), J::UInt(evaluations.max(total.evaluations))),
        ("distinct_nontrivial".into(), J::UInt(distinct)),
        ("rule".into(), J::from(spec.rule.as_str())),
        ("samples".into(), J::Arr(samples)),
        ("runs_per_hour".into(), J::UInt(if wall > 0.0 { (evaluations as f64 / wall * 3600.0) as u64 } else { 0 })),
        ("phases".into(), J::Arr(phases)),
        ("counters".into(), J::from(&total.counters)),
        ("maxima".into(), J::from(&total.max)),
        ("distinct_other_measures".into(), extra),
        ("coverage_matrix".into(), J::Obj(vec![("rows".into(), J::from(*rn)), ("columns".into(), J::from(*cn)), ("cells".into(), J::Obj(matrix)), ("rows_never_hit".into(), J::Arr(empty_rows))])),
        ("unclaimed_divergences_and_notes".into(), notes),
        ("components".into(), J::Obj(vec![("real_code".into(), J::from(spec.components_real.clone())), ("stubbed".into(), J::from(spec.components_stub.clone()))])),
        ("simulated_time".into(), J::from("none - the system under test has no clock; progress is counted in simulated steps (stream pulls, object operations)")),
        ("known_finding_lines".into(), J::UInt(known_lines)),
    ]);
    J::Obj(vec![
        ("property_id".into(), J::from(spec.property)), ("tier".into(), J::from(tier)), ("seed".into(), J::UInt(seed)), ("level".into(), J::from(spec.level)),
        ("coverage".into(), coverage),
        ("assumptions".into(), J::from(spec.assumptions.clone())),
        ("wall_s".into(), J::Float(wall)), ("violations".into(), J::UInt(violations)),
    ])
}

// ---------------------------------------------------------------------------------------------
// supervisor: crash containment and triage
// ---------------------------------------------------------------------------------------------

struct ChildEnd { code: Option<i32>, signal: Option<i32>, timed_out: bool, stdout: String }

fn run_child(args: &[&str], timeout: Duration, capture: bool) -> ChildEnd {
    use std::os::unix::process::ExitStatusExt;
    let exe = std::env::current_exe().expect("current_exe");
    let mut cmd = Command::new(exe);
    cmd.args(args).stdin(Stdio::null());
    if capture { cmd.stdout(Stdio::piped()).stderr(Stdio::null()); }
    let mut child = cmd.spawn().expect("spawn child");
    // drain stdout on a thread so that a chatty child cannot block
    let reader = child.stdout.take().map(|mut o| std::thread::spawn(move || { let mut s = String::new(); let _ = o.read_to_string(&mut s); s }));
    let t0 = Instant::now();
    let (status, timed_out) = loop {
        match child.try_wait() {
            Ok(Some(st)) => break (Some(st), false),
            Ok(None) => { if t0.elapsed() > timeout { let _ = child.kill(); break (child.wait().ok(), true); } std::thread::sleep(Duration::from_millis(if t0.elapsed() < Duration::from_millis(200) { 2 } else { 25 })); }
            Err(_) => break (None, false),
        }
    };
    let stdout = reader.and_then(|h| h.join().ok()).unwrap_or_default();
    ChildEnd { code: status.and_then(|s| s.code()), signal: status.and_then(|s| s.signal()), timed_out, stdout }
}

fn supervisor(property: &str, tier: &str) -> i32 {
    let limit = Duration::from_secs(env_u64("VERIF_WALL_LIMIT_S").unwrap_or(if tier == "thorough" { 4 * 3600 } else { 1800 }));
    let _ = std::fs::remove_file(crumbs_path(property));
    let _ = std::fs::remove_file(hang_flag_path(property));
    std::env::set_var("VERIF_HANG_FLAG", hang_flag_path(property));
    // the thorough tier first re-proves determinism on a sample (a simulator whose runs do not replay decides nothing)
    if tier == "thorough" && std::env::var("VERIF_RETRIED").is_err() {
        let saved = std::env::var("VERIF_THREADS").ok();
        let rc = determinism_check(2_000, Some(property));
        match saved { Some(v) => std::env::set_var("VERIF_THREADS", v), None => std::env::remove_var("VERIF_THREADS") }
        if rc != 0 { return 2; }
    }
    let end = run_child(&["--worker", property, tier], limit, false);
    if !end.timed_out {
        match end.code {
            Some(c @ (0 | 1 | 2)) => return c,
            Some(c) => { println!("HARNESS-ERROR: the worker process ended with exit status {} (a failure of the harness itself)", c); return 2; }
            None => {}
        }
    }
    // the worker died on a signal or hung: find the culprit run
    // (the worker writes a flag and prints a HANG line before aborting when one run made no progress)
    let hung = std::fs::read_to_string(hang_flag_path(property)).is_ok();
    let what = if end.timed_out { format!("exceeded the wall-clock limit of {:?}", limit) } else if hung { "made no progress inside one run (hang) and was aborted by the watchdog".to_string() } else { format!("died on signal {:?}", end.signal) };
    println!("worker process {}; bisecting the open chunks in fresh child processes", what);
    let seed = crate::seed();
    let spec = match build_spec(property, tier, seed) { Some(s) => s, None => return 2 };
    let open = Crumbs::read(&crumbs_path(property));
    if open.is_empty() { println!("HARNESS-ERROR: worker {} and left no breadcrumbs", what); return 2; }
    let per_range = Duration::from_secs(if end.timed_out { 120 } else { 600 });
    for (phase, a, b) in open {
        if let Some(run) = bisect(property, tier, &phase, a, b, per_range) {
            let d = run_child(&["--dump", property, tier, &phase, &run.to_string()], Duration::from_secs(600), true);
            let sc = J::parse(d.stdout.trim()).ok().and_then(|j| { let eng = j.get("engine").and_then(J::as_str).unwrap_or("").to_string(); j.get("scenario").and_then(|s| Scenario::from_json(&eng, s).ok()) });
            let sc = match sc { Some(s) => s, None => { println!("HARNESS-ERROR: cannot dump scenario of phase {} run {}", phase, run); return 2; } };
            if !spec.crash_is_violation {
                println!("HARNESS-ERROR: the system under test crashed or hung (phase {} run {}); that is a C03 matter and {} cannot be judged past it", phase, run, property);
                return 2;
            }
            let abort_id = format!("{}.abort", property.to_lowercase());
            let ph = spec.phases.iter().find(|p| p.name() == phase).map(|p| p.as_ref());
            let fails = |s: &Scenario| replay_contained(property, s);
            let cands = |s: &Scenario| ph.map(|p| p.shrink_candidates(s)).unwrap_or_default();
            // what does the culprit do on its own, with ten minutes instead of the watchdog's seconds? It may
            // crash or hang again (an abort), end with an ordinary judged violation that merely took long
            // (reported as that violation), or pass (a stall of the machine: handled below)
            let (check_id, msg) = match fails(&sc) {
                Some((id, _)) if id == abort_id => (abort_id.clone(), format!("process {} while executing this scenario (stack overflow, abort or hang inside the library)", what)),
                Some((id, m)) => { println!("the run the watchdog stopped ends with a judged violation when given more time"); (id, m) }
                None => continue,
            };
            let out = shrink(sc, &check_id, msg, &cands, &fails, if end.timed_out || hung { 12 } else { 300 });
            let j = report::replay_json(property, &check_id, seed, tier, &phase, run, &out.scenario, &out.message, out.from_size, out.executions);
            let path = match report::write_replay(&j) { Ok(p) => p, Err(e) => { println!("HARNESS-ERROR: {}", e); return 2; } };
            match run_replay_process(&path) {
                Some((1, t)) if t.contains(&format!("check_id={}", check_id)) => {}
                _ => { println!("HARNESS-ERROR: replay of {} did not reproduce the crash", path); return 2; }
            }
            println!("violation {} (phase {}, run {}): {}", check_id, phase, run, out.message);
            println!("VIOLATION property={} replay={}", property, path);
            return 1;
        }
    }
    // A watchdog abort that does not reproduce in isolation was a stall of the machine, not of the
    // library: run the batch once more with a four times more patient watchdog.
    if hung && std::env::var("VERIF_RETRIED").is_err() {
        println!("the run the watchdog stopped completes normally in isolation (a stall of the machine, not a hang of the library); repeating the batch once with a more patient watchdog");
        std::env::set_var("VERIF_RETRIED", "1");
        std::env::set_var("VERIF_HANG_S", (env_u64("VERIF_HANG_S").unwrap_or(20) * 4).to_string());
        return supervisor(property, tier);
    }
    println!("HARNESS-ERROR: worker {} but no single run reproduces it in isolation", what);
    2
}

fn bisect(property: &str, tier: &str, phase: &str, a: u64, b: u64, limit: Duration) -> Option<u64> {
    let crashes = |x: u64, y: u64| { let e = run_child(&["--range", property, tier, phase, &x.to_string(), &y.to_string(), "nolog"], limit, true); e.timed_out || e.code.is_none() };
    if !crashes(a, b) { return None; }
    let (mut lo, mut hi) = (a, b);
    while hi - lo > 1 {
        let mid = lo + (hi - lo) / 2;
        if crashes(lo, mid) { hi = mid; } else if crashes(mid, hi) { lo = mid; } else { return None; }
    }
    Some(lo)
}

fn find_phase<'a>(spec: &'a Spec, name: &str) -> Option<&'a dyn Phase> { spec.phases.iter().find(|p| p.name() == name).map(|p| p.as_ref()) }

/// Run a sub-range of a phase single-threaded (crash bisection, determinism self-test).
fn range_cmd(property: &str, tier: &str, phase: &str, a: u64, b: u64, log: bool) -> i32 {
    silent_panics();
    let seed = crate::seed();
    let spec = match build_spec(property, tier, seed) { Some(s) => s, None => return 2 };
    let ph = match find_phase(&spec, phase) { Some(p) => p, None => return 2 };
    let r = run_phase(ph, seed, (a, b.min(ph.runs())), threads(), &Crumbs::none(), log);
    if log {
        let mut l = r.stats.runlog.unwrap_or_default();
        l.sort_unstable();
        let mut d = crate::kernel::rng::Digest::default();
        for (run, x, y) in &l { d.u64(*run); d.u64(*x); d.u64(*y); }
        println!("RUNLOG runs={} digest={:016x}", l.len(), d.finish());
    }
    if r.found.is_empty() { 0 } else { 1 }
}

fn dump_cmd(property: &str, tier: &str, phase: &str, run: u64) -> i32 {
    let seed = crate::seed();
    let spec = match build_spec(property, tier, seed) { Some(s) => s, None => return 2 };
    let ph = match find_phase(&spec, phase) { Some(p) => p, None => return 2 };
    let g = ph.generate(seed, run);
    println!("{}", J::Obj(vec![("engine".into(), J::from(g.sc.engine())), ("scenario".into(), g.sc.to_json())]).to_string_compact());
    0
}

// ---------------------------------------------------------------------------------------------
// replay
// ---------------------------------------------------------------------------------------------

/// Execute an explicit scenario in a fresh child process and classify the outcome; a crash of
/// the child is the violation `<property>.abort`.
pub fn replay_contained(property: &str, sc: &Scenario) -> Option<(String, String)> {
    if let Scenario::Deep(_) = sc { return judge_scenario(property, sc).ok().flatten(); }
    let j = report::replay_json(property, "-", crate::seed(), "-", "-", 0, sc, "", sc.size(), 0);
    let path = format!("{}/contained-{}-{:?}.json", report::state_dir(), std::process::id(), std::thread::current().id());
    if std::fs::write(&path, j.to_string_compact()).is_err() { return None; }
    let e = run_child(&["--replay-inner", &path], Duration::from_secs(600), true);
    let _ = std::fs::remove_file(&path);
    classify_inner(property, &e)
}

fn classify_inner(property: &str, e: &ChildEnd) -> Option<(String, String)> {
    if e.timed_out { return Some((format!("{}.abort", property.to_lowercase()), "scenario did not terminate within 600 s".into())); }
    match e.code {
        Some(1) => {
            let line = e.stdout.lines().find(|l| l.starts_with("REPLAY check_id="))?;
            let rest = &line["REPLAY check_id=".len()..];
            let (id, msg) = rest.split_once(' ').unwrap_or((rest, ""));
            Some((id.to_string(), msg.trim_start_matches("message=").to_string()))
        }
        Some(_) => None,
        None => Some((format!("{}.abort", property.to_lowercase()), format!("process died on signal {:?} while executing the scenario", e.signal))),
    }
}

fn replay_inner(file: &str) -> i32 {
    silent_panics();
    // watchdog: a scenario that does not finish is a hang of the system under test
    let limit = env_u64("VERIF_HANG_S").unwrap_or(20);
    std::thread::spawn(move || { std::thread::sleep(Duration::from_secs(limit)); println!("HANG: scenario still running after {} s", limit); std::process::abort(); });
    let rf = match report::read_replay(file) { Ok(r) => r, Err(e) => { println!("HARNESS-ERROR: {}", e); return 2; } };
    match judge_scenario(&rf.property, &rf.scenario) {
        Ok(Some((id, msg))) => { println!("REPLAY check_id={} message={}", id, msg.replace('\n', " ")); 1 }
        Ok(None) => { println!("REPLAY no violation"); 0 }
        Err(e) => { println!("HARNESS-ERROR: {}", e); 2 }
    }
}

fn replay_outer(file: &str) -> i32 {
    let rf = match report::read_replay(file) { Ok(r) => r, Err(e) => { println!("HARNESS-ERROR: {}", e); return 2; } };
    println!("replaying {} (property {}, recorded check_id {})", file, rf.property, rf.check_id);
    let res = if let Scenario::Deep(_) = rf.scenario { judge_scenario(&rf.property, &rf.scenario).ok().flatten() } else {
        let e = run_child(&["--replay-inner", file], Duration::from_secs(900), true);
        if e.code == Some(2) { print!("{}", e.stdout); return 2; }
        classify_inner(&rf.property, &e)
    };
    match res {
        Some((id, msg)) => {
            println!("check_id={} {}", id, msg);
            if id == rf.check_id { println!("reproduced: VIOLATION property={} replay={}", rf.property, file); } else { println!("a different check fired than the recorded one ({})", rf.check_id); }
            1
        }
        None => { println!("no violation: the scenario passes on the current tree"); 0 }
    }
}

// ---------------------------------------------------------------------------------------------
// determinism self-test
// ---------------------------------------------------------------------------------------------

fn selftest_determinism(args: &[&str]) -> i32 {
    let n: u64 = args.first().and_then(|s| s.parse().ok()).unwrap_or(20_000);
    determinism_check(n, None)
}

/// Same runs, several processes and worker counts: the per-run logs must hash identically.
fn determinism_check(n: u64, only: Option<&str>) -> i32 {
    let seed = crate::seed();
    let mut bad = 0;
    for property in PROPERTIES {
        if let Some(p) = only { if p != property { continue; } }
        let spec = match build_spec(property, "quick", seed) { Some(s) => s, None => continue };
        for ph in &spec.phases {
            if ph.chunk() == 1 { continue; } // child-process phases: observation is an exit status
            let total = ph.runs();
            let (a, b) = if total > n { let a = (total - n) / 2; (a, a + n) } else { (0, total) };
            let mut digests = vec![];
            for th in ["1", "5", "16", "16"] {
                std::env::set_var("VERIF_THREADS", th);
                let e = run_child(&["--range", property, "quick", ph.name(), &a.to_string(), &b.to_string(), "log"], Duration::from_secs(1800), true);
                let line = e.stdout.lines().find(|l| l.starts_with("RUNLOG")).unwrap_or("RUNLOG missing").to_string();
                digests.push(line);
            }
            let ok = digests.iter().all(|d| *d == digests[0]) && !digests[0].contains("missing");
            println!("{} {:<34} runs {}..{} at 1/5/16/16 threads in 4 processes: {} {}", property, ph.name(), a, b, if ok { "identical" } else { "DIFFERENT" }, digests[0]);
            if !ok { bad += 1; for d in &digests { println!("    {}", d); } }
        }
    }
    if bad == 0 { println!("determinism self-test passed"); 0 } else { println!("HARNESS-ERROR: determinism self-test failed for {} phase(s)", bad); 2 }
}

#[allow(dead_code)]
fn unused(_: Gen) {}
