//! C06 — objects are insertion-ordered multimaps whose key index never goes stale.
//!
//! Every operation of a history is applied to the real `Object` and to the list model; after
//! every step the operation's result, the entries, every key-based query and the dump of the key
//! index are compared.
use super::hist::*;
use super::model::{self, same_entries, same_value, M};
use crate::kernel::rng::{Digest, Rng};
use crate::kernel::runner::{Exec, Gen, Phase, Violation};
use crate::kernel::stats::Stats;
use crate::scenario::Scenario;
use json_syntax::object::verif::{set_hash_config, HashMode};
use json_syntax::object::{Duplicate, Entry, Key};
use json_syntax::{CodeMap, Object, Parse, Value};
use std::panic::{catch_unwind, AssertUnwindSafe};

pub struct SimUnwind;

/// `extend_from` is skipped when the target register would grow beyond this (keeps long histories
/// with repeated self-extension from doubling without bound).
pub const MAX_ENTRIES: usize = 4096;

pub fn hash_mode_of(name: &str) -> HashMode {
    match name {
        "collide" => HashMode::Collide,
        "lowbits1" => HashMode::LowBits(1),
        "lowbits2" => HashMode::LowBits(2),
        "lowbits3" => HashMode::LowBits(3),
        "sametag" => HashMode::SameTag,
        "sameslot" => HashMode::SameSlot,
        _ => HashMode::Good,
    }
}

type KV = (String, Value);
fn kv(e: Entry) -> KV { (e.key.as_str().to_string(), e.value) }
fn kv_ref(e: &Entry) -> KV { (e.key.as_str().to_string(), e.value.clone()) }

/// What the real operation answered.
#[derive(Debug)]
pub enum Res {
    Unit,
    Fresh(bool),
    /// `some`: an iterator was returned; `pulled`: items obtained from it before it was dropped
    Removed { some: bool, pulled: Vec<KV>, seen: Seen },
    RemovedAt(Option<KV>),
    Unique(Result<Option<KV>, (KV, KV)>),
    UniqueMut(Result<bool, (KV, KV)>),
    Got { value: Value, called: bool },
    Pulled(usize),
}

fn same_kv(a: &KV, b: &KV) -> bool { a.0 == b.0 && same_value(&a.1, &b.1) }
fn same_kvs(a: &[KV], b: &[KV]) -> bool { a.len() == b.len() && a.iter().zip(b).all(|(x, y)| same_kv(x, y)) }
fn show_kv(e: &KV) -> String { format!("{:?}: {}", e.0, e.1) }
fn show_kvs(es: &[KV]) -> String { format!("[{}]", es.iter().map(show_kv).collect::<Vec<_>>().join(", ")) }

/// How an exhausted removal iterator was consumed when not item by item.
#[derive(Debug, Clone)]
pub enum Seen { Items, CountOnly(usize), LastOnly(Option<KV>) }

fn pull_with<I: Iterator<Item = Entry>>(mut it: I, c: Cancel, pulled: &mut Vec<KV>, seen: &mut Seen) {
    match c.then {
        // an exhausting consumer comes in four styles: a for loop, collect(), count(), last()
        Then::Exhaust => match c.pull % 4 {
            0 => { for e in it { pulled.push(kv(e)); } }
            1 => { let v: Vec<Entry> = it.collect(); pulled.extend(v.into_iter().map(kv)); }
            2 => { *seen = Seen::CountOnly(it.count()); }
            _ => { *seen = Seen::LastOnly(it.last().map(kv)); }
        },
        Then::Drop => { for _ in 0..c.pull { match it.next() { Some(e) => pulled.push(kv(e)), None => break } } drop(it); }
        Then::Unwind => {
            for _ in 0..c.pull { match it.next() { Some(e) => pulled.push(kv(e)), None => break } }
            // the consumer panics while the iterator is alive: its Drop runs during unwinding
            std::panic::panic_any(SimUnwind);
        }
    }
}

/// What a caller's callback may legitimately do while an operation of one object is in progress:
/// use *other* objects and the parser on the same thread. Panics (an ordinary panic, reported as a
/// panic of the operation) if those nested uses misbehave — the library would not be re-entrant.
pub fn nested_activity() {
    let mut o = Object::new();
    o.push(Key::from("n"), Value::Null);
    o.push(Key::from("m"), Value::Boolean(true));
    o.push(Key::from("n"), Value::Boolean(false));
    o.push_front(Key::from("z"), Value::Null);
    let removed: Vec<Entry> = o.remove("n").collect();
    if removed.len() != 2 || o.len() != 2 || o.contains_key("n") || o.index_of("m") != Some(1) || o.index_of("z") != Some(0) { panic!("object operations nested inside a callback of another object's operation misbehaved"); }
    match Value::parse_str("{\"n\":[1,2],\"n\":{}}") {
        Ok((Value::Object(p), _)) if p.len() == 2 && p.indexes_of("n").count() == 2 => {}
        _ => panic!("a parse nested inside a callback of an object operation misbehaved"),
    }
}

pub enum Applied { Ok(Res), Panicked(String) }

/// Apply one operation to the real objects. Panics are contained; the deliberate `SimUnwind`
/// of a cancellation is not a panic of the library.
/// Keys are built in three ways, by position in the history: from a `&str` (inline when <= 16 bytes),
/// from a `String` with spare capacity (heap-stored even when short), or grown past 16 bytes and
/// truncated back (stays on the heap). How a key is stored must never be observable.
pub fn mk_key(k: &str, style: usize) -> Key {
    match style % 3 {
        0 => Key::from(k),
        1 => { let mut s = String::with_capacity(k.len() + 40); s.push_str(k); Key::from(s) }
        _ => { let mut key = Key::from(k); key.push_str("0123456789abcdefXYZ"); key.truncate(k.len()); key }
    }
}

/// An iterator with an honest but loose `size_hint` (how much a bulk operation may pre-size must
/// never decide what ends up in the index): exact, no upper bound, a smaller lower bound, a larger
/// upper bound, or only an upper bound.
pub struct Hinted<I> { inner: I, mode: usize }
pub fn hinted<I: Iterator>(inner: I, mode: usize) -> Hinted<I> { Hinted { inner, mode: mode % 5 } }
impl<I: Iterator> Iterator for Hinted<I> {
    type Item = I::Item;
    fn next(&mut self) -> Option<I::Item> { self.inner.next() }
    fn size_hint(&self) -> (usize, Option<usize>) {
        let (lo, hi) = self.inner.size_hint();
        match self.mode { 0 => (lo, hi), 1 => (0, None), 2 => (lo / 2, None), 3 => (lo, hi.map(|h| h * 2 + 3)), _ => (0, hi) }
    }
}

pub fn apply_real(op: &Op, regs: &mut [Object; REGISTERS], maps: &mut [Option<CodeMap>; REGISTERS], salt: usize) -> Applied {
    // any operation invalidates the code map of the register it names (re-established below by from_parse / clone_to)
    let kept = match op { Op::CloneTo { r, .. } => maps[*r].clone(), _ => None };
    if !matches!(op, Op::CloneTo { .. }) { maps[op.reg()] = None; }
    let mut some = false;
    let mut pulled: Vec<KV> = vec![];
    let mut seen = Seen::Items;
    let r = catch_unwind(AssertUnwindSafe(|| -> Res {
        match op {
            Op::Push { r, k, v } => Res::Fresh(regs[*r].push(mk_key(k.as_str(), salt + k.len()), v.build())),
            Op::PushEntry { r, k, v } => Res::Fresh(regs[*r].push_entry(Entry::new(mk_key(k.as_str(), salt + k.len()), v.build()))),
            Op::PushFront { r, k, v } => Res::Fresh(regs[*r].push_front(mk_key(k.as_str(), salt + k.len()), v.build())),
            Op::PushEntryFront { r, k, v } => Res::Fresh(regs[*r].push_entry_front(Entry::new(mk_key(k.as_str(), salt + k.len()), v.build()))),
            Op::Insert { r, k, v, c } => {
                if let Some(it) = regs[*r].insert(mk_key(k.as_str(), salt + k.len()), v.build()) { some = true; pull_with(it, *c, &mut pulled, &mut seen); }
                Res::Unit
            }
            Op::InsertFront { r, k, v, c } => { some = true; let it = regs[*r].insert_front(mk_key(k.as_str(), salt + k.len()), v.build()); pull_with(it, *c, &mut pulled, &mut seen); Res::Unit }
            Op::Remove { r, k, c } => { some = true; let it = regs[*r].remove(k.as_str()); pull_with(it, *c, &mut pulled, &mut seen); Res::Unit }
            Op::RemoveAt { r, i } => Res::RemovedAt(regs[*r].remove_at(*i).map(kv)),
            Op::RemoveUnique { r, k } => Res::Unique(match regs[*r].remove_unique(k.as_str()) { Ok(o) => Ok(o.map(kv)), Err(Duplicate(a, b)) => Err((kv(a), kv(b))) }),
            Op::Sort { r } => { regs[*r].sort(); Res::Unit }
            Op::FromVec { r, es } => {
                let v: Vec<Entry> = es.iter().map(|(k, v)| Entry::new(mk_key(k.as_str(), salt + k.len()), v.build())).collect();
                regs[*r] = if es.len() % 2 == 0 { Object::from_vec(v) } else { Object::from(v) };
                Res::Unit
            }
            Op::FromIterEntries { r, es } => { regs[*r] = hinted(es.iter().map(|(k, v)| Entry::new(mk_key(k.as_str(), salt + k.len()), v.build())), salt + es.len()).collect::<Object>(); Res::Unit }
            Op::FromIterPairs { r, es } => { regs[*r] = hinted(es.iter().map(|(k, v)| (mk_key(k.as_str(), salt + k.len()), v.build())), salt + es.len()).collect::<Object>(); Res::Unit }
            Op::FromParse { r, es } => {
                let mut text = String::new();
                write_object_text(es, &mut text);
                let (v, map) = Value::parse_str(&text).expect("the harness wrote valid JSON");
                regs[*r] = v.into_object().expect("an object");
                maps[*r] = Some(map);
                Res::Unit
            }
            Op::ExtendEntries { r, es } => { regs[*r].extend(hinted(es.iter().map(|(k, v)| { if salt % 3 == 0 { nested_activity(); } Entry::new(mk_key(k.as_str(), salt + k.len()), v.build()) }), salt + es.len())); Res::Unit }
            Op::ExtendPairs { r, es } => { regs[*r].extend(hinted(es.iter().map(|(k, v)| (mk_key(k.as_str(), salt + k.len()), v.build())), salt + es.len())); Res::Unit }
            Op::GetOrInsertPanicking { r, k, mutable } => {
                // the caller's default closure fails: when the key is present it must not even be called
                let value = if *mutable { regs[*r].get_mut_or_insert_with(k.as_str(), || std::panic::panic_any(SimUnwind)).clone() }
                    else { regs[*r].get_or_insert_with(k.as_str(), || std::panic::panic_any(SimUnwind)).clone() };
                Res::Got { value, called: false }
            }
            Op::ExtendPanicking { r, es, after, pairs } => {
                // the caller's iterator fails (panics) after `after` items; the object must stay coherent
                struct PanicAfter<I> { inner: I, left: usize }
                impl<I: Iterator> Iterator for PanicAfter<I> {
                    type Item = I::Item;
                    fn next(&mut self) -> Option<I::Item> { if self.left == 0 { std::panic::panic_any(SimUnwind); } self.left -= 1; self.inner.next() }
                }
                if *pairs { regs[*r].extend(PanicAfter { inner: es.iter().map(|(k, v)| (mk_key(k.as_str(), salt + k.len()), v.build())), left: *after }); }
                else { regs[*r].extend(PanicAfter { inner: es.iter().map(|(k, v)| Entry::new(mk_key(k.as_str(), salt + k.len()), v.build())), left: *after }); }
                Res::Unit
            }
            Op::ExtendFrom { r, s } => {
                // bounded: repeated self-extension doubles the object; beyond MAX_ENTRIES the operation is skipped (in the model too)
                if regs[*r].len() + regs[*s].len() <= MAX_ENTRIES { let src: Vec<Entry> = regs[*s].entries().to_vec(); regs[*r].extend(src); }
                Res::Unit
            }
            Op::IterMutSet { r, i, v } => {
                // through `iter_mut()` or through `IntoIterator for &mut Object`
                if *i % 2 == 0 { for (j, (_, slot)) in regs[*r].iter_mut().enumerate() { if j == *i { *slot = v.build(); } } }
                else { for (j, (_, slot)) in (&mut regs[*r]).into_iter().enumerate() { if j == *i { *slot = v.build(); } } }
                Res::Unit
            }
            Op::GetMutSet { r, k, pull, v } => {
                let mut n = 0;
                let mut it = regs[*r].get_mut(k.as_str());
                for _ in 0..*pull { match it.next() { Some(slot) => { *slot = v.build(); n += 1; } None => break } }
                Res::Pulled(n)
            }
            Op::GetUniqueMutSet { r, k, v } => Res::UniqueMut(match regs[*r].get_unique_mut(k.as_str()) {
                Ok(Some(slot)) => { *slot = v.build(); Ok(true) }
                Ok(None) => Ok(false),
                Err(Duplicate(a, b)) => Err((kv_ref(a), kv_ref(b))),
            }),
            Op::GetOrInsertWith { r, k, v } => {
                let mut called = false;
                let value = regs[*r].get_or_insert_with(k.as_str(), || { called = true; if salt % 2 == 0 { nested_activity(); } v.build() }).clone();
                Res::Got { value, called }
            }
            Op::GetMutOrInsertWith { r, k, v, set } => {
                let mut called = false;
                let slot = regs[*r].get_mut_or_insert_with(k.as_str(), || { called = true; if salt % 2 == 0 { nested_activity(); } v.build() });
                let value = slot.clone();
                if let Some(s) = set { *slot = s.build(); }
                Res::Got { value, called }
            }
            Op::CloneTo { r, dst, from } => {
                if *from && r != dst {
                    // `Clone::clone_from` onto an object with its own history (and its own hash builder)
                    let src = std::mem::take(&mut regs[*r]);
                    regs[*dst].clone_from(&src);
                    regs[*r] = src;
                } else { let c = regs[*r].clone(); regs[*dst] = c; }
                maps[*dst] = kept.clone();
                Res::Unit
            }
            Op::IntoIterRebuild { r } => { let o = std::mem::take(&mut regs[*r]); regs[*r] = o.into_iter().collect::<Object>(); Res::Unit }
            Op::Fresh { r } => { regs[*r] = if *r % 2 == 0 { Object::new() } else { Object::default() }; Res::Unit }
        }
    }));
    match r {
        Ok(Res::Unit) if op.cancel().is_some() => Applied::Ok(Res::Removed { some, pulled, seen }),
        Ok(res) => Applied::Ok(res),
        Err(p) => {
            if p.is::<SimUnwind>() { if matches!(op, Op::ExtendPanicking { .. } | Op::GetOrInsertPanicking { .. }) { Applied::Ok(Res::Unit) } else { Applied::Ok(Res::Removed { some, pulled, seen }) } }
            else if let Some(s) = p.downcast_ref::<&str>() { Applied::Panicked(s.to_string()) }
            else if let Some(s) = p.downcast_ref::<String>() { Applied::Panicked(s.clone()) }
            else { Applied::Panicked("<non-string panic payload>".into()) }
        }
    }
}

/// What the model expects; also applies the operation to the model.
pub enum Exp {
    Unit,
    Fresh(bool),
    /// `some`: an iterator is returned; `all`: the complete removal list in order
    Removed { some: bool, all: Vec<KV> },
    RemovedAt(Option<KV>),
    Unique(Result<Option<KV>, (KV, KV)>),
    UniqueMut(Result<bool, (KV, KV)>),
    Got { value: Value, called: bool },
    Pulled(usize),
}

pub fn apply_model(op: &Op, ms: &mut [M; REGISTERS]) -> Exp {
    match op {
        Op::Push { r, k, v } | Op::PushEntry { r, k, v } => Exp::Fresh(model::push(&mut ms[*r], k, v.build())),
        Op::PushFront { r, k, v } | Op::PushEntryFront { r, k, v } => Exp::Fresh(model::push_front(&mut ms[*r], k, v.build())),
        Op::Insert { r, k, v, .. } => match model::insert(&mut ms[*r], k, v.build()) { Some(all) => Exp::Removed { some: true, all }, None => Exp::Removed { some: false, all: vec![] } },
        Op::InsertFront { r, k, v, .. } => Exp::Removed { some: true, all: model::insert_front(&mut ms[*r], k, v.build()) },
        Op::Remove { r, k, .. } => Exp::Removed { some: true, all: model::remove(&mut ms[*r], k) },
        Op::RemoveAt { r, i } => Exp::RemovedAt(model::remove_at(&mut ms[*r], *i)),
        Op::RemoveUnique { r, k } => {
            let all = model::remove(&mut ms[*r], k);
            Exp::Unique(match all.len() { 0 => Ok(None), 1 => Ok(Some(all[0].clone())), _ => Err((all[0].clone(), all[1].clone())) })
        }
        Op::Sort { r } => { model::sort(&mut ms[*r]); Exp::Unit }
        Op::FromVec { r, es } | Op::FromIterEntries { r, es } | Op::FromIterPairs { r, es } | Op::FromParse { r, es } => { ms[*r] = es.iter().map(|(k, v)| (k.clone(), v.build())).collect(); Exp::Unit }
        Op::ExtendEntries { r, es } | Op::ExtendPairs { r, es } => { ms[*r].extend(es.iter().map(|(k, v)| (k.clone(), v.build()))); Exp::Unit }
        Op::GetOrInsertPanicking { r, k, .. } => match model::positions(&ms[*r], k).first() {
            Some(p) => Exp::Got { value: ms[*r][*p].1.clone(), called: false },
            None => Exp::Unit, // the closure panics; nothing changes
        },
        Op::ExtendPanicking { r, es, after, .. } => { let n = (*after).min(es.len()); ms[*r].extend(es[..n].iter().map(|(k, v)| (k.clone(), v.build()))); Exp::Unit }
        Op::ExtendFrom { r, s } => { if ms[*r].len() + ms[*s].len() <= MAX_ENTRIES { let src = ms[*s].clone(); ms[*r].extend(src); } Exp::Unit }
        Op::IterMutSet { r, i, v } => { if let Some(e) = ms[*r].get_mut(*i) { e.1 = v.build(); } Exp::Unit }
        Op::GetMutSet { r, k, pull, v } => {
            let pos = model::positions(&ms[*r], k);
            let n = pos.len().min(*pull);
            for p in &pos[..n] { ms[*r][*p].1 = v.build(); }
            Exp::Pulled(n)
        }
        Op::GetUniqueMutSet { r, k, v } => {
            let pos = model::positions(&ms[*r], k);
            Exp::UniqueMut(match pos.len() { 0 => Ok(false), 1 => { ms[*r][pos[0]].1 = v.build(); Ok(true) } _ => Err((ms[*r][pos[0]].clone(), ms[*r][pos[1]].clone())) })
        }
        Op::GetOrInsertWith { r, k, v } => {
            match model::positions(&ms[*r], k).first() {
                Some(p) => Exp::Got { value: ms[*r][*p].1.clone(), called: false },
                None => { ms[*r].push((k.clone(), v.build())); Exp::Got { value: v.build(), called: true } }
            }
        }
        Op::GetMutOrInsertWith { r, k, v, set } => {
            let (p, called) = match model::positions(&ms[*r], k).first() { Some(p) => (*p, false), None => { ms[*r].push((k.clone(), v.build())); (ms[*r].len() - 1, true) } };
            let value = ms[*r][p].1.clone();
            if let Some(s) = set { ms[*r][p].1 = s.build(); }
            Exp::Got { value, called }
        }
        Op::CloneTo { r, dst, .. } => { let c = ms[*r].clone(); ms[*dst] = c; Exp::Unit }
        Op::IntoIterRebuild { .. } => Exp::Unit,
        Op::Fresh { r } => { ms[*r].clear(); Exp::Unit }
    }
}

fn compare_result(op: &Op, res: &Res, exp: &Exp) -> Result<(), String> {
    match (res, exp) {
        (Res::Unit, Exp::Unit) => Ok(()),
        (Res::Fresh(a), Exp::Fresh(b)) => if a == b { Ok(()) } else { Err(format!("returned {} but the key was {}present before", a, if *b { "not " } else { "" })) },
        (Res::Removed { some, pulled, seen }, Exp::Removed { some: esome, all }) => {
            match seen {
                Seen::Items => {}
                Seen::CountOnly(n) => { if *some && *n != all.len() { return Err(format!("count() of the removal iterator is {} but the model removes {} entries {}", n, all.len(), show_kvs(all))); } if some == esome { return Ok(()); } }
                Seen::LastOnly(x) => {
                    let ok = match (x, all.last()) { (None, None) => true, (Some(a), Some(b)) => same_kv(a, b), _ => false };
                    if *some && !ok { return Err(format!("last() of the removal iterator is {:?} but the last entry the model removes is {:?}", x.as_ref().map(show_kv), all.last().map(show_kv))); }
                    if some == esome { return Ok(()); }
                }
            }
            if some != esome { return Err(format!("returned {} but the model expects {}", if *some { "Some(iterator)" } else { "None" }, if *esome { "Some(iterator)" } else { "None" })); }
            let c = op.cancel().unwrap();
            let want: &[KV] = match c.then { Then::Exhaust => &all[..], _ => &all[..all.len().min(c.pull)] };
            if !same_kvs(pulled, want) { return Err(format!("removal iterator yielded {} but the {} of the model's removal list {} is {}", show_kvs(pulled), if c.then == Then::Exhaust { "whole" } else { "matching prefix" }, show_kvs(all), show_kvs(want))); }
            Ok(())
        }
        (Res::RemovedAt(a), Exp::RemovedAt(b)) => match (a, b) {
            (None, None) => Ok(()),
            (Some(x), Some(y)) if same_kv(x, y) => Ok(()),
            _ => Err(format!("returned {:?} but the model removed {:?}", a.as_ref().map(show_kv), b.as_ref().map(show_kv))),
        },
        (Res::Unique(a), Exp::Unique(b)) => match (a, b) {
            (Ok(None), Ok(None)) => Ok(()),
            (Ok(Some(x)), Ok(Some(y))) if same_kv(x, y) => Ok(()),
            (Err((x1, x2)), Err((y1, y2))) if same_kv(x1, y1) && same_kv(x2, y2) => Ok(()),
            _ => Err(format!("returned {:?} but the model expects {:?}", a, b)),
        },
        (Res::UniqueMut(a), Exp::UniqueMut(b)) => match (a, b) {
            (Ok(x), Ok(y)) if x == y => Ok(()),
            (Err((x1, x2)), Err((y1, y2))) if same_kv(x1, y1) && same_kv(x2, y2) => Ok(()),
            _ => Err(format!("returned {:?} but the model expects {:?}", a, b)),
        },
        (Res::Got { value, called }, Exp::Got { value: ev, called: ec }) => {
            if called != ec { return Err(format!("the default closure was {}called but the key was {}", if *called { "" } else { "not " }, if *ec { "absent" } else { "present" })); }
            if !same_value(value, ev) { return Err(format!("returned {} but the first value for the key is {}", value, ev)); }
            Ok(())
        }
        (Res::Pulled(a), Exp::Pulled(b)) => if a == b { Ok(()) } else { Err(format!("get_mut yielded {} values but {} were expected", a, b)) },
        _ => Err("result shape differs from the model".into()),
    }
}

/// All key-based queries for key `k` against a linear scan of the model.
/// Consume an iterator in one of eight ways (`collect`, `next` + `nth`, `step_by`, `next` + `skip`,
/// `last`, `nth` on a fresh iterator, two `next`s + `step_by`, `fold`). The same program applied to the
/// positions of a linear scan gives the expectation, so an iterator whose specialised `nth`, `last`,
/// `size_hint`... disagree with its `next` is seen.
fn consume<I: Iterator>(mut it: I, prog: usize) -> Vec<I::Item> {
    let mut v = vec![];
    match prog % 8 {
        0 => v.extend(it),
        1 => { if let Some(a) = it.next() { v.push(a); } if let Some(b) = it.nth(1) { v.push(b); } v.extend(it); }
        2 => v.extend(it.step_by(2)),
        3 => { if let Some(a) = it.next() { v.push(a); } v.extend(it.skip(1)); }
        4 => v.extend(it.last()),
        5 => { if let Some(a) = it.nth(2) { v.push(a); } v.extend(it); }
        6 => { if let Some(a) = it.next() { v.push(a); } if let Some(a) = it.next() { v.push(a); } v.extend(it.step_by(3)); }
        _ => { v = it.fold(vec![], |mut acc, x| { acc.push(x); acc }); }
    }
    v
}

fn check_queries(o: &Object, m: &M, k: &str, by_key_type: bool, prog: usize) -> Result<(), String> {
    let all = model::positions(m, k);
    // the unique lookups and the scalar queries see every position; the iterators are consumed by program `prog`
    let pos: Vec<usize> = consume(all.iter().copied(), prog);
    let how = ["collect()", "next(), nth(1), rest", "step_by(2)", "next(), skip(1)", "last()", "nth(2), rest", "next(), next(), step_by(3)", "fold"][prog % 8];
    macro_rules! q {
        ($key:expr) => {{
            let key = $key;
            if o.contains_key(key) != !all.is_empty() { return Err(format!("contains_key({:?}) = {} but a linear scan finds {} entries", k, o.contains_key(key), all.len())); }
            if o.index_of(key) != all.first().copied() { return Err(format!("index_of({:?}) = {:?} but the first position is {:?}", k, o.index_of(key), all.first())); }
            if o.redundant_index_of(key) != all.get(1).copied() { return Err(format!("redundant_index_of({:?}) = {:?} but the second position is {:?}", k, o.redundant_index_of(key), all.get(1))); }
            let idx: Vec<usize> = consume(o.indexes_of(key), prog);
            if idx != pos { return Err(format!("indexes_of({:?}) consumed by {} = {:?} but a linear scan consumed the same way gives {:?}", k, how, idx, pos)); }
            let vals: Vec<&Value> = consume(o.get(key), prog);
            if vals.len() != pos.len() || !vals.iter().zip(&pos).all(|(v, p)| same_value(v, &m[*p].1)) { return Err(format!("get({:?}) consumed by {} yields {} values that differ from the entries at {:?}", k, how, vals.len(), pos)); }
            let ents: Vec<&Entry> = consume(o.get_entries(key), prog);
            if ents.len() != pos.len() || !ents.iter().zip(&pos).all(|(e, p)| e.key.as_str() == k && same_value(&e.value, &m[*p].1)) { return Err(format!("get_entries({:?}) consumed by {} differs from the entries at {:?}", k, how, pos)); }
            let wi: Vec<(usize, &Value)> = consume(o.get_with_index(key), prog);
            if wi.len() != pos.len() || !wi.iter().zip(&pos).all(|((i, v), p)| i == p && same_value(v, &m[*p].1)) { return Err(format!("get_with_index({:?}) consumed by {} differs from the entries at {:?}", k, how, pos)); }
            let ewi: Vec<(usize, &Entry)> = consume(o.get_entries_with_index(key), prog);
            if ewi.len() != pos.len() || !ewi.iter().zip(&pos).all(|((i, e), p)| i == p && e.key.as_str() == k && same_value(&e.value, &m[*p].1)) { return Err(format!("get_entries_with_index({:?}) consumed by {} differs from the entries at {:?}", k, how, pos)); }
            match (o.get_unique(key), all.len()) {
                (Ok(None), 0) => {}
                (Ok(Some(v)), 1) if same_value(v, &m[all[0]].1) => {}
                (Err(Duplicate(a, b)), n) if n >= 2 && a.key.as_str() == k && b.key.as_str() == k && same_value(&a.value, &m[all[0]].1) && same_value(&b.value, &m[all[1]].1) => {}
                (r, n) => return Err(format!("get_unique({:?}) = {:?} but a linear scan finds {} entries", k, r.map(|v| v.map(|v| v.to_string())).map_err(|d| (d.0.value.to_string(), d.1.value.to_string())), n)),
            }
            match (o.get_unique_entry(key), all.len()) {
                (Ok(None), 0) => {}
                (Ok(Some(e)), 1) if e.key.as_str() == k && same_value(&e.value, &m[all[0]].1) => {}
                (Err(Duplicate(a, b)), n) if n >= 2 && a.key.as_str() == k && b.key.as_str() == k && same_value(&a.value, &m[all[0]].1) && same_value(&b.value, &m[all[1]].1) => {}
                (_, n) => return Err(format!("get_unique_entry({:?}) disagrees with a linear scan ({} entries)", k, n)),
            }
        }};
    }
    if by_key_type { let key = Key::from(k); q!(&key); } else { q!(k); }
    Ok(())
}

/// The mapped family of key queries (objects that came out of the parser, code map still valid):
/// each must return, for the i-th occurrence of the key, exactly what `iter_mapped()` yields at
/// that position — entry, index and fragment offsets.
fn check_mapped_queries(o: &Object, map: &CodeMap, m: &M, k: &str, prog: usize) -> Result<(), String> {
    let all = model::positions(m, k);
    let pos: Vec<usize> = consume(all.iter().copied(), prog);
    // linear scan: (offset, key offset, value offset) per position
    let scan: Vec<(usize, usize, usize)> = o.iter_mapped(map, 0).map(|e| (e.offset, e.value.key.offset, e.value.value.offset)).collect();
    if scan.len() != m.len() { return Err(format!("iter_mapped yields {} entries but the object has {}", scan.len(), m.len())); }
    let want: Vec<(usize, (usize, usize, usize))> = pos.iter().map(|p| (*p, scan[*p])).collect();
    let want_all: Vec<(usize, (usize, usize, usize))> = all.iter().map(|p| (*p, scan[*p])).collect();
    let ok_entry = |p: usize, key: &str, v: &Value| key == k && same_value(v, &m[p].1);
    let a: Vec<_> = consume(o.get_mapped_entries(map, 0, k), prog);
    if a.len() != want.len() || !a.iter().zip(&want).all(|(e, (p, offs))| (e.offset, e.value.key.offset, e.value.value.offset) == *offs && ok_entry(*p, e.value.key.value.as_str(), e.value.value.value)) {
        return Err(format!("get_mapped_entries({:?}) differs from what iter_mapped yields at positions {:?}", k, pos));
    }
    let b: Vec<_> = consume(o.get_mapped_entries_with_index(map, 0, k), prog);
    if b.len() != want.len() || !b.iter().zip(&want).all(|((i, e), (p, offs))| i == p && (e.offset, e.value.key.offset, e.value.value.offset) == *offs && ok_entry(*p, e.value.key.value.as_str(), e.value.value.value)) {
        return Err(format!("get_mapped_entries_with_index({:?}) differs from what iter_mapped yields at positions {:?}", k, pos));
    }
    let c: Vec<_> = consume(o.get_mapped(map, 0, k), prog);
    if c.len() != want.len() || !c.iter().zip(&want).all(|(v, (p, offs))| v.offset == offs.2 && same_value(v.value, &m[*p].1)) {
        return Err(format!("get_mapped({:?}) differs from the values iter_mapped yields at positions {:?}", k, pos));
    }
    let d: Vec<_> = consume(o.get_mapped_with_index(map, 0, k), prog);
    if d.len() != want.len() || !d.iter().zip(&want).all(|((i, v), (p, offs))| i == p && v.offset == offs.2 && same_value(v.value, &m[*p].1)) {
        return Err(format!("get_mapped_with_index({:?}) differs from the values iter_mapped yields at positions {:?}", k, pos));
    }
    let shape = |n: usize| if n == 0 { "none" } else if n == 1 { "one" } else { "duplicate" };
    let u1 = match o.get_unique_mapped_entry(map, 0, k) { Ok(None) => "none", Ok(Some(e)) => if e.offset == want_all[0].1 .0 { "one" } else { "wrong" }, Err(Duplicate(x, y)) => if want_all.len() >= 2 && x.offset == want_all[0].1 .0 && y.offset == want_all[1].1 .0 { "duplicate" } else { "wrong" } };
    let u2 = match o.get_unique_mapped_entry_with_index(map, 0, k) { Ok(None) => "none", Ok(Some((i, e))) => if i == want_all[0].0 && e.offset == want_all[0].1 .0 { "one" } else { "wrong" }, Err(Duplicate((i, x), (j, y))) => if want_all.len() >= 2 && i == want_all[0].0 && j == want_all[1].0 && x.offset == want_all[0].1 .0 && y.offset == want_all[1].1 .0 { "duplicate" } else { "wrong" } };
    let u3 = match o.get_unique_mapped(map, 0, k) { Ok(None) => "none", Ok(Some(v)) => if v.offset == want_all[0].1 .2 { "one" } else { "wrong" }, Err(Duplicate(x, y)) => if want_all.len() >= 2 && x.offset == want_all[0].1 .2 && y.offset == want_all[1].1 .2 { "duplicate" } else { "wrong" } };
    let u4 = match o.get_unique_mapped_with_index(map, 0, k) { Ok(None) => "none", Ok(Some((i, v))) => if i == want_all[0].0 && v.offset == want_all[0].1 .2 { "one" } else { "wrong" }, Err(Duplicate((i, x), (j, y))) => if want_all.len() >= 2 && i == want_all[0].0 && j == want_all[1].0 && x.offset == want_all[0].1 .2 && y.offset == want_all[1].1 .2 { "duplicate" } else { "wrong" } };
    for (name, got) in [("get_unique_mapped_entry", u1), ("get_unique_mapped_entry_with_index", u2), ("get_unique_mapped", u3), ("get_unique_mapped_with_index", u4)] {
        if got != shape(want_all.len()) { return Err(format!("{}({:?}) answers '{}' but a linear scan finds {} entries at {:?}", name, k, got, want_all.len(), all)); }
    }
    Ok(())
}

/// Index dump invariants: buckets partition 0..len; one key per bucket, one bucket per key;
/// rep is the smallest position and the others are strictly ascending.
pub fn check_index(o: &Object) -> Result<usize, String> {
    let (buckets, dump) = o.verif_index_dump();
    let es = o.entries();
    let mut seen = vec![false; es.len()];
    let mut keys: Vec<&str> = Vec::with_capacity(dump.len());
    for (rep, other) in &dump {
        let mut prev = *rep;
        for p in std::iter::once(rep).chain(other.iter()) {
            if *p >= es.len() { return Err(format!("index bucket (rep {}, other {:?}) holds position {} but the object has {} entries", rep, other, p, es.len())); }
            if seen[*p] { return Err(format!("position {} appears twice in the index (bucket rep {}, other {:?})", p, rep, other)); }
            seen[*p] = true;
            if es[*p].key.as_str() != es[*rep].key.as_str() { return Err(format!("index bucket (rep {}, other {:?}) mixes keys {:?} and {:?}", rep, other, es[*rep].key.as_str(), es[*p].key.as_str())); }
        }
        for p in other { if *p <= prev { return Err(format!("index bucket (rep {}, other {:?}) is not strictly ascending with rep smallest", rep, other)); } prev = *p; }
        keys.push(es[*rep].key.as_str());
    }
    if let Some(p) = seen.iter().position(|s| !*s) { return Err(format!("entry {} ({:?}) is in no index bucket", p, es[p].key.as_str())); }
    // every bucket must be reachable by a lookup of its own key (i.e. it sits where its key hashes to)
    for (rep, _) in &dump {
        if o.index_of(es[*rep].key.as_str()) != Some(*rep) { return Err(format!("the index bucket of key {:?} (rep {}) is not found by a lookup of that key: it sits in a slot its key does not hash to", es[*rep].key.as_str(), rep)); }
    }
    keys.sort_unstable();
    if keys.windows(2).any(|w| w[0] == w[1]) { return Err("two index buckets carry the same key".into()); }
    Ok(buckets)
}

pub struct HistOutcome {
    pub violation: Option<Violation>,
    pub outcome: u64,
    pub nontrivial: bool,
}

fn viol(id: &str, step: usize, op: &Op, msg: String) -> Option<Violation> {
    Some(Violation { check_id: id.to_string(), message: format!("step {} ({}): {}", step, op.to_json().to_string_compact(), msg) })
}

/// Execute a history under the C06 oracle.
/// What a panic payload says.
pub fn payload_text(p: &(dyn std::any::Any + Send)) -> String {
    if let Some(s) = p.downcast_ref::<&str>() { s.to_string() } else if let Some(s) = p.downcast_ref::<String>() { s.clone() } else { "(a panic without a message)".to_string() }
}

/// `run_c06_inner` with every panic that is not already attributed to an operation contained: a
/// query or an accessor of the library that panics is a violation (`c06.panic`), not the death of a
/// worker thread.
pub fn run_c06(sc: &HistSc, st: &mut Stats) -> HistOutcome {
    match catch_unwind(AssertUnwindSafe(|| run_c06_inner(sc, st))) {
        Ok(o) => o,
        Err(p) => HistOutcome { violation: Some(Violation { check_id: "c06.panic".into(), message: format!("a query, an accessor or the index dump panicked after an operation had returned: {}", payload_text(p.as_ref())) }), outcome: 0, nontrivial: false },
    }
}

fn run_c06_inner(sc: &HistSc, st: &mut Stats) -> HistOutcome {
    set_hash_config(hash_mode_of(&sc.hash_mode), sc.hash_seed);
    let mut regs: [Object; REGISTERS] = [Object::new(), Object::new(), Object::new()];
    let mut maps: [Option<CodeMap>; REGISTERS] = [None, None, None];
    let mut ms: [M; REGISTERS] = [vec![], vec![], vec![]];
    let uni = sc.universe();
    let small = uni.len() <= 8;
    let mut shifted = [false; REGISTERS];
    let mut cloned = [false; REGISTERS];
    let mut buckets = [0usize; REGISTERS];
    let mut nontrivial = false;
    let mut d = Digest::default();
    st.bump(match sc.hash_mode.as_str() { "good" => "hash.good", "collide" => "hash.collide", "sametag" => "hash.sametag", "sameslot" => "hash.sameslot", _ => "hash.lowbits" });
    for (step, op) in sc.ops.iter().enumerate() {
        let r = op.reg();
        // probes evaluated on the model state *before* the operation
        let before = ms[r].len();
        match op {
            Op::Insert { k, .. } => { let n = model::positions(&ms[r], k).len(); if n >= 3 { st.bump("probe.insert_replaces_first_of_3plus"); } }
            Op::PushFront { k, .. } | Op::PushEntryFront { k, .. } => { if !model::positions(&ms[r], k).is_empty() { st.bump("probe.push_front_onto_existing_key_rep_swap"); } }
            Op::RemoveAt { i, .. } => {
                if *i >= before { st.bump("probe.remove_at_out_of_range"); } else {
                    let pos = model::positions(&ms[r], &ms[r][*i].0.clone());
                    if pos[0] == *i && pos.len() > 1 { st.bump("probe.remove_rep_with_others_present"); }
                    if pos.len() == 1 { st.bump("probe.remove_last_of_key_bucket_deletion"); }
                }
            }
            Op::Sort { .. } => { let mut ks: Vec<&str> = ms[r].iter().map(|e| e.0.as_str()).collect(); ks.sort_unstable(); if ks.windows(2).any(|w| w[0] == w[1]) { st.bump("probe.sort_with_duplicates"); } }
            Op::RemoveUnique { k, .. } => { if model::positions(&ms[r], k).len() >= 2 { st.bump("probe.remove_unique_duplicate"); } }
            _ => {}
        }
        if let Some(k) = op.key() { st.bump(if k.len() > 16 { "keys.spilled_to_heap" } else { "keys.inline" }); }
        if cloned[r] { st.bump("probe.mutation_after_clone"); }
        // `remove_unique` on a duplicated key: the rustdoc says only that an error is returned. The
        // current behaviour (all matches removed, by `remove` + completion in Drop) is what the model
        // follows; leaving the object untouched would be an equally documented outcome, so the model
        // keeps the state before the operation at hand and adopts it if that is what the object did.
        let before_remove_unique: Option<M> = match op { Op::RemoveUnique { r, k } if model::positions(&ms[*r], k).len() >= 2 => Some(ms[*r].clone()), _ => None };
        let exp = apply_model(op, &mut ms);
        let res = match apply_real(op, &mut regs, &mut maps, step) {
            Applied::Ok(res) => res,
            Applied::Panicked(m) => return HistOutcome { violation: viol("c06.panic", step, op, format!("the operation panicked: {}", m)), outcome: d.finish(), nontrivial },
        };
        st.bump("ops_checked");
        st.cell(op.index() as u8, 0, 0);
        // cancellation accounting: what really happened
        if let (Some(c), Exp::Removed { some: true, all }) = (op.cancel(), &exp) {
            let kind = match c.then {
                Then::Exhaust => "cancel.exhausted",
                Then::Unwind => "cancel.unwound",
                Then::Drop => if all.is_empty() { "cancel.nothing_to_remove" } else if c.pull == 0 { "cancel.dropped_untouched" } else if c.pull < all.len() { "cancel.dropped_partially_consumed" } else { "cancel.exhausted" },
            };
            st.bump(kind);
            if c.then != Then::Exhaust && c.pull < all.len() { nontrivial = true; if c.then == Then::Unwind { st.bump("cancel.unwound_with_work_left_for_drop"); } }
        }
        if let (Some(prev), Res::Unique(Err(_))) = (&before_remove_unique, &res) {
            if same_entries(&regs[r], prev) { ms[r] = prev.clone(); st.bump("probe.remove_unique_duplicate_left_object_untouched"); }
        }
        if let Op::ExtendPanicking { es, after, .. } = op {
            // when the source iterator panicked, any prefix of the items it had yielded may have been
            // kept (the current code keeps all of them); what must hold is coherence of entries and index
            if *after <= es.len() {
                let base = ms[r].len() - *after;
                for j in (0..=*after).rev() {
                    if regs[r].len() == base + j { let mut cand = ms[r].clone(); cand.truncate(base + j); if same_entries(&regs[r], &cand) { ms[r] = cand; break; } }
                }
                st.bump("cancel.extend_source_panicked");
                nontrivial = true;
            }
        }
        if let Err(m) = compare_result(op, &res, &exp) { return HistOutcome { violation: viol("c06.result", step, op, m), outcome: d.finish(), nontrivial }; }
        // entries of every register (the named one changed; the others must not have)
        for q in 0..REGISTERS {
            if !same_entries(&regs[q], &ms[q]) {
                let id = if q == r || matches!(op, Op::CloneTo { dst, .. } if *dst == q) { "c06.entries" } else { "c06.register_independence" };
                return HistOutcome { violation: viol(id, step, op, format!("register {} holds {} but the list model holds {}", q, model::describe_obj(&regs[q]), model::describe(&ms[q]))), outcome: d.finish(), nontrivial };
            }
            let o = &regs[q];
            if o.len() != ms[q].len() || o.is_empty() != ms[q].is_empty() || o.iter().count() != ms[q].len() || o.into_iter().count() != ms[q].len()
                || o.first().map(|e| e.key.as_str()) != ms[q].first().map(|e| e.0.as_str()) || o.last().map(|e| e.key.as_str()) != ms[q].last().map(|e| e.0.as_str()) {
                return HistOutcome { violation: viol("c06.entries", step, op, format!("len/is_empty/iter/first/last of register {} disagree with the list model {}", q, model::describe(&ms[q]))), outcome: d.finish(), nontrivial };
            }
        }
        // index dump of the touched registers
        let touched: Vec<usize> = match op { Op::CloneTo { dst, .. } => vec![r, *dst], _ => vec![r] };
        for &q in &touched {
            match check_index(&regs[q]) {
                Ok(b) => {
                    if b != buckets[q] { if shifted[q] && b > buckets[q] { st.bump("probe.rehash_after_positions_shifted"); nontrivial = true; } buckets[q] = b; st.maxi("max_index_buckets", b as u64); }
                }
                Err(m) => return HistOutcome { violation: viol("c06.index", step, op, format!("register {}: {}", q, m)), outcome: d.finish(), nontrivial },
            }
        }
        match op {
            Op::PushFront { .. } | Op::PushEntryFront { .. } | Op::InsertFront { .. } | Op::RemoveAt { .. } | Op::Remove { .. } | Op::RemoveUnique { .. } | Op::Insert { .. } => shifted[r] = true,
            Op::Sort { .. } | Op::FromVec { .. } | Op::FromIterEntries { .. } | Op::FromIterPairs { .. } | Op::FromParse { .. } | Op::IntoIterRebuild { .. } | Op::Fresh { .. } => shifted[r] = false,
            Op::CloneTo { dst, .. } => { cloned[r] = true; cloned[*dst] = true; shifted[*dst] = shifted[r]; }
            _ => {}
        }
        // key-based queries
        let full = small || step + 1 == sc.ops.len() || if uni.len() > 64 { step % 32 == 31 } else { step % 4 == 3 };
        for &q in &touched {
            if full {
                // (a giant object is asked about a stride sample of some 32 keys: every query is a linear scan of the model)
                let stride = if ms[q].len() > 5000 { uni.len() / 32 + 1 } else { 1 };
                for (i, k) in uni.iter().enumerate().filter(|(i, _)| (i + step) % stride == 0) {
                    if let Err(m) = check_queries(&regs[q], &ms[q], k, (i + step) % 5 == 0, i + 3 * step) { return HistOutcome { violation: viol("c06.query", step, op, format!("register {}: {}", q, m)), outcome: d.finish(), nontrivial }; }
                    if let Some(map) = &maps[q] {
                        if let Err(m) = check_mapped_queries(&regs[q], map, &ms[q], k, i + 5 * step + 1) { return HistOutcome { violation: viol("c06.query", step, op, format!("register {}: {}", q, m)), outcome: d.finish(), nontrivial }; }
                        st.add("mapped_queries_checked", 8);
                    }
                }
                st.add("queries_checked", 10 * (uni.len() / stride) as u64);
            } else {
                let mut ks: Vec<&str> = vec![uni.last().unwrap().as_str()];
                if let Some(k) = op.key() { ks.push(k); }
                if let Some(es) = op.entries() { for (k, _) in es.iter().take(4) { ks.push(k); } }
                if let Some(e) = ms[q].first() { ks.push(&e.0); }
                if let Some(e) = ms[q].last() { ks.push(&e.0); }
                for k in &ks {
                    if let Err(m) = check_queries(&regs[q], &ms[q], k, false, step + k.len()) { return HistOutcome { violation: viol("c06.query", step, op, format!("register {}: {}", q, m)), outcome: d.finish(), nontrivial }; }
                }
                st.add("queries_checked", 10 * ks.len() as u64);
            }
        }
        d.usize(ms[r].len()); d.usize(buckets[r]);
    }
    for m in &ms { for (k, v) in m { d.str(k); d.str(&v.to_string()); } }
    st.maxi("max_entries_in_an_object", ms.iter().map(|m| m.len()).max().unwrap_or(0) as u64);
    // abstract state signature: key pattern of the entry list up to renaming x bucket count
    let mut sig = Digest::default();
    for m in &ms {
        let mut names: Vec<&str> = vec![];
        for (k, _) in m { let id = match names.iter().position(|n| n == k) { Some(i) => i, None => { names.push(k); names.len() - 1 } }; sig.usize(id); }
        sig.u8(0xff);
    }
    st.extra("distinct_abstract_states(key pattern of the entry lists up to renaming)", sig.finish());
    HistOutcome { violation: None, outcome: d.finish(), nontrivial }
}

pub struct C06Search {
    pub runs: u64,
    pub max_len: usize,
}

impl Phase for C06Search {
    fn name(&self) -> &'static str { "history-search" }
    fn id(&self) -> u64 { 0x601 }
    fn runs(&self) -> u64 { self.runs }
    fn generate(&self, seed: u64, run: u64) -> Gen {
        let mut rng = Rng::for_run(seed, self.id(), run);
        Gen::plain(Scenario::Hist(gen_hist(&mut rng, self.max_len)))
    }
    fn execute(&self, g: &Gen, _run: u64, st: &mut Stats) -> Exec {
        match &g.sc {
            Scenario::Hist(h) => { let o = run_c06(h, st); Exec { outcome: o.outcome, digest: h.digest(), nontrivial: o.nontrivial, violation: o.violation } }
            _ => unreachable!(),
        }
    }
    fn shrink_candidates(&self, sc: &Scenario) -> Vec<Scenario> { match sc { Scenario::Hist(h) => hist_shrink_candidates(h).into_iter().map(Scenario::Hist).collect(), _ => vec![] } }
    fn chunk(&self) -> u64 { 256 }
}

/// Every history of up to `len` operations over a 2-key universe from a small operation menu
/// (exhaustive for the stated bound: every reachable abstract state of that space is visited).
pub struct C06Small {
    pub len: usize,
}

impl C06Small {
    fn menu() -> Vec<Op> {
        let mut m = vec![];
        for k in ["a", "b"] {
            let k = k.to_string();
            m.push(Op::Push { r: 0, k: k.clone(), v: V::Null });
            m.push(Op::PushFront { r: 0, k: k.clone(), v: V::Bool(true) });
            m.push(Op::Insert { r: 0, k: k.clone(), v: V::Num("1".into()), c: Cancel { pull: 0, then: Then::Drop } });
            m.push(Op::Insert { r: 0, k: k.clone(), v: V::Num("2".into()), c: Cancel { pull: 1, then: Then::Drop } });
            m.push(Op::InsertFront { r: 0, k: k.clone(), v: V::Str("f".into()), c: Cancel { pull: 0, then: Then::Drop } });
            m.push(Op::InsertFront { r: 0, k: k.clone(), v: V::Str("g".into()), c: Cancel { pull: 1, then: Then::Unwind } });
            m.push(Op::Remove { r: 0, k: k.clone(), c: Cancel { pull: 0, then: Then::Drop } });
            m.push(Op::Remove { r: 0, k: k.clone(), c: Cancel { pull: 1, then: Then::Drop } });
            m.push(Op::RemoveUnique { r: 0, k: k.clone() });
        }
        m.push(Op::RemoveAt { r: 0, i: 0 });
        m.push(Op::RemoveAt { r: 0, i: 1 });
        m.push(Op::Sort { r: 0 });
        m
    }
}

impl Phase for C06Small {
    fn name(&self) -> &'static str { "small-universe-exhaustive" }
    fn id(&self) -> u64 { 0x602 }
    fn runs(&self) -> u64 { let n = Self::menu().len() as u64; (1..=self.len as u32).map(|l| n.pow(l)).sum() }
    fn generate(&self, _seed: u64, run: u64) -> Gen {
        let menu = Self::menu();
        let n = menu.len() as u64;
        let mut rest = run;
        let mut l = 1u32;
        while rest >= n.pow(l) { rest -= n.pow(l); l += 1; }
        let mut ops = vec![];
        for _ in 0..l { ops.push(menu[(rest % n) as usize].clone()); rest /= n; }
        let modes = ["good", "collide", "sametag", "sameslot"];
        let last = ops.len() - 1;
        Gen::plain(Scenario::Hist(HistSc { hash_mode: modes[(run % 4) as usize].into(), hash_seed: run, ops, twin_seed: run, checkpoints: vec![last] }))
    }
    fn execute(&self, g: &Gen, _run: u64, st: &mut Stats) -> Exec {
        match &g.sc {
            Scenario::Hist(h) => { let o = run_c06(h, st); Exec { outcome: o.outcome, digest: h.digest(), nontrivial: o.nontrivial, violation: o.violation } }
            _ => unreachable!(),
        }
    }
    fn shrink_candidates(&self, sc: &Scenario) -> Vec<Scenario> { match sc { Scenario::Hist(h) => hist_shrink_candidates(h).into_iter().map(Scenario::Hist).collect(), _ => vec![] } }
    fn chunk(&self) -> u64 { 1024 }
}
