//! C14 — equality, ordering and hashing are coherent and depend only on content.
//!
//! Ground truth is the object's *own observed entry list* (read through public accessors),
//! never the C06 model: if an operation misbehaves (a C06 matter) twins are built from what the
//! object really contains, so only the dependence of Eq/Ord/Hash on history, index state and
//! hash layout is judged.
use super::c06::{apply_real, hash_mode_of, Applied, SimUnwind};
use super::hist::*;
use super::model::same_value;
use crate::kernel::rng::{Digest, Rng};
use crate::kernel::runner::{Exec, Gen, Phase, Violation};
use crate::kernel::stats::Stats;
use crate::scenario::Scenario;
use json_syntax::object::verif::set_hash_config;
use json_syntax::object::{Entry, Key};
use json_syntax::{Object, Value};
use std::cmp::Ordering;
use std::hash::{Hash, Hasher};
use std::panic::{catch_unwind, AssertUnwindSafe};

struct Fnv(u64);
impl Hasher for Fnv {
    fn write(&mut self, bytes: &[u8]) { for b in bytes { self.0 ^= *b as u64; self.0 = self.0.wrapping_mul(0x0000_0100_0000_01b3); } }
    fn finish(&self) -> u64 { self.0 }
}
fn h_sip<T: Hash>(t: &T) -> u64 { let mut h = std::collections::hash_map::DefaultHasher::new(); t.hash(&mut h); h.finish() }
fn h_fnv<T: Hash>(t: &T) -> u64 { let mut h = Fnv(0xcbf2_9ce4_8422_2325); t.hash(&mut h); h.finish() }

/// Everything the comparison traits say about a pair.
#[derive(Debug, Clone, Copy)]
struct Rel { eq: bool, ne: bool, eq_rev: bool, cmp: Ordering, cmp_rev: Ordering, pcmp: Option<Ordering>, pcmp_rev: Option<Ordering>, hash_same: bool,
    /// the four comparison operators (`<`, `<=`, `>`, `>=`), which a type may override separately
    ops: [bool; 4] }

fn rel<T: Eq + Ord + Hash>(a: &T, b: &T) -> Result<Rel, String> {
    catch_unwind(AssertUnwindSafe(|| Rel {
        eq: a == b, ne: a != b, eq_rev: b == a, cmp: a.cmp(b), cmp_rev: b.cmp(a), pcmp: a.partial_cmp(b), pcmp_rev: b.partial_cmp(a),
        hash_same: h_sip(a) == h_sip(b) && h_fnv(a) == h_fnv(b),
        ops: [a < b, a <= b, a > b, a >= b],
    })).map_err(|_| "a comparison or hash call panicked".to_string())
}

fn entries_digest(es: &[Entry]) -> u64 {
    let mut d = Digest::default();
    for e in es { d.str(e.key.as_str()); d.str(&e.value.to_string()); }
    d.finish()
}

fn same_observed(a: &Object, b: &[Entry]) -> bool {
    let ea = a.entries();
    ea.len() == b.len() && ea.iter().zip(b).all(|(x, y)| x.key.as_str() == y.key.as_str() && same_value(&x.value, &y.value))
}

const ROUTES: [&str; 10] = ["from_vec", "push_in_order", "push_front_in_reverse", "chunked_extend", "superset_then_remove_junk", "clone", "into_iter_collect", "null_then_iter_mut", "insert_in_order_if_unique_keys", "clone_from_onto_other_history"];

/// Build an object holding `obs` by route `route`, with a fresh hash layout.
fn build_twin(route: usize, obs: &[Entry], rng: &mut Rng, orig: &Object) -> Option<Object> {
    let modes = ["good", "good", "collide", "lowbits2", "sametag", "sameslot"];
    set_hash_config(hash_mode_of(modes[rng.usize_below(modes.len())]), rng.next_u64());
    let r = catch_unwind(AssertUnwindSafe(|| -> Option<Object> {
        Some(match route {
            0 => Object::from_vec(obs.to_vec()),
            1 => { let mut o = Object::new(); for e in obs { o.push(e.key.clone(), e.value.clone()); } o }
            2 => { let mut o = Object::new(); for e in obs.iter().rev() { o.push_front(e.key.clone(), e.value.clone()); } o }
            3 => {
                let mut o = Object::new();
                let mut i = 0;
                while i < obs.len() { let n = rng.urange(1, 4).min(obs.len() - i); o.extend(obs[i..i + n].iter().cloned()); i += n; }
                o
            }
            4 => {
                let junk = ["\u{2}junk-0", "\u{2}junk-1-with-a-long-name-beyond-sixteen", "\u{2}junk-2"];
                let mut o = Object::new();
                let mut put_junk = |o: &mut Object, rng: &mut Rng| { if rng.chance(1, 2) { let k = *rng.pick(&junk); if rng.chance(1, 4) { o.push_front(Key::from(k), Value::Null); } else { o.push(Key::from(k), Value::Boolean(true)); } true } else { false } };
                for e in obs {
                    // junk may go anywhere: removing it again preserves the relative order of the real entries
                    put_junk(&mut o, rng);
                    o.push(e.key.clone(), e.value.clone());
                }
                put_junk(&mut o, rng);
                for k in junk {
                    match rng.below(4) {
                        0 => { drop(o.remove(k)); }
                        1 => { let mut it = o.remove(k); let _ = it.next(); drop(it); }
                        2 => { while let Some(i) = o.index_of(k) { o.remove_at(i); } }
                        _ => { let _ = catch_unwind(AssertUnwindSafe(|| { let mut it = o.remove(k); let _ = it.next(); std::panic::panic_any(SimUnwind); })); }
                    }
                }
                o
            }
            5 => orig.clone(),
            6 => Object::from_vec(obs.to_vec()).into_iter().collect::<Object>(),
            7 => {
                let mut o = Object::new();
                for e in obs { o.push(e.key.clone(), Value::Null); }
                for (i, (_, slot)) in o.iter_mut().enumerate() { *slot = obs[i].value.clone(); }
                o
            }
            9 => {
                // Clone::clone_from onto an object that has a history (and a hash builder) of its own
                // the destination holds unrelated keys, or the same entries in another order, or the same
                // keys with other values, or one key repeated: whatever it held must not shine through
                let mut o = Object::new();
                match rng.below(5) {
                    0 => { for i in 0..rng.urange(0, 6) { o.push(Key::from(format!("other-{}", i).as_str()), Value::Null); } if rng.chance(1, 2) { o.remove_at(0); } }
                    1 => { for e in obs.iter().rev() { o.push(e.key.clone(), e.value.clone()); } }
                    2 => { for e in obs.iter() { o.push(e.key.clone(), Value::Null); } o.sort(); }
                    3 => { if let Some(e) = obs.first() { for _ in 0..obs.len() { o.push(e.key.clone(), Value::Boolean(true)); } } }
                    _ => { let n = obs.len(); for i in 0..n { let e = &obs[(i + 1) % n]; o.push_front(e.key.clone(), e.value.clone()); } }
                }
                o.clone_from(orig);
                o
            }
            _ => {
                // `insert` only reproduces the list when keys are unique
                let mut ks: Vec<&str> = obs.iter().map(|e| e.key.as_str()).collect();
                ks.sort_unstable();
                if ks.windows(2).any(|w| w[0] == w[1]) { return None; }
                let mut o = Object::new();
                for e in obs { drop(o.insert(e.key.clone(), e.value.clone())); }
                o
            }
        })
    }));
    r.ok().flatten()
}

fn viol(id: &str, msg: String) -> Option<Violation> { Some(Violation { check_id: id.to_string(), message: msg }) }

fn show(es: &[Entry]) -> String {
    let item = |e: &Entry| format!("{:?}: {}", e.key.as_str(), e.value);
    if es.len() <= 16 { format!("{{{}}}", es.iter().map(item).collect::<Vec<_>>().join(", ")) }
    else { format!("{{{}, … ({} entries) …, {}}}", es[..6].iter().map(item).collect::<Vec<_>>().join(", "), es.len(), es[es.len() - 6..].iter().map(item).collect::<Vec<_>>().join(", ")) }
}

/// `<`, `<=`, `>`, `>=` must say what `cmp` says.
fn ops_agree(r: &Rel) -> bool {
    r.ops == [r.cmp == Ordering::Less, r.cmp != Ordering::Greater, r.cmp == Ordering::Greater, r.cmp != Ordering::Less]
}

/// A pair that must be indistinguishable to Eq / Ord / Hash.
fn must_be_equal<T: Eq + Ord + Hash>(a: &T, b: &T, what: &str) -> Option<Violation> {
    let r = match rel(a, b) { Ok(r) => r, Err(m) => return viol("c14.panic", format!("{}: {}", what, m)) };
    if !r.eq || r.ne || !r.eq_rev { return viol("c14.eq_depends_on_history", format!("{}: same entries but == is {}, != is {}, reversed == is {}", what, r.eq, r.ne, r.eq_rev)); }
    if r.cmp != Ordering::Equal || r.cmp_rev != Ordering::Equal || r.pcmp != Some(Ordering::Equal) || r.pcmp_rev != Some(Ordering::Equal) {
        return viol("c14.ord_depends_on_history", format!("{}: same entries but cmp = {:?}/{:?}, partial_cmp = {:?}/{:?}", what, r.cmp, r.cmp_rev, r.pcmp, r.pcmp_rev));
    }
    if !ops_agree(&r) { return viol("c14.partial_cmp", format!("{}: the operators <, <=, >, >= answer {:?} but cmp = {:?}", what, r.ops, r.cmp)); }
    if !r.hash_same { return viol("c14.hash_depends_on_history", format!("{}: same entries but different Hash output", what)); }
    None
}

/// A pair that differs structurally: must be unequal, must not compare Equal, order antisymmetric.
fn must_differ<T: Eq + Ord + Hash>(a: &T, b: &T, what: &str) -> Option<Violation> {
    let r = match rel(a, b) { Ok(r) => r, Err(m) => return viol("c14.panic", format!("{}: {}", what, m)) };
    if r.eq || !r.ne || r.eq_rev { return viol("c14.near_copy_equal", format!("{}: different content but == is {}, != is {}", what, r.eq, r.ne)); }
    if r.cmp == Ordering::Equal || r.cmp_rev == Ordering::Equal { return viol("c14.ord_equal_iff_eq", format!("{}: different content but cmp says Equal", what)); }
    if r.cmp != r.cmp_rev.reverse() { return viol("c14.ord_antisymmetry", format!("{}: cmp(a,b) = {:?} but cmp(b,a) = {:?}", what, r.cmp, r.cmp_rev)); }
    if r.pcmp != Some(r.cmp) || r.pcmp_rev != Some(r.cmp_rev) { return viol("c14.partial_cmp", format!("{}: partial_cmp = {:?}/{:?} disagrees with cmp = {:?}/{:?}", what, r.pcmp, r.pcmp_rev, r.cmp, r.cmp_rev)); }
    if !ops_agree(&r) { return viol("c14.partial_cmp", format!("{}: the operators <, <=, >, >= answer {:?} but cmp = {:?}", what, r.ops, r.cmp)); }
    None
}

fn different_leaf(v: &Value) -> Value { if matches!(v, Value::Null) { Value::Boolean(true) } else { Value::Null } }

/// `s` with one character (the first, the last or any) changed in exactly one bit of its code point.
fn flip_char(s: &str, rng: &mut Rng) -> Option<String> {
    let mut cs: Vec<char> = s.chars().collect();
    if cs.is_empty() { return None; }
    let at = match rng.below(3) { 0 => 0, 1 => cs.len() - 1, _ => rng.usize_below(cs.len()) };
    for _ in 0..8 {
        let bit = if (cs[at] as u32) < 0x80 { rng.below(7) } else { rng.below(21) } as u32;
        if let Some(nc) = char::from_u32(cs[at] as u32 ^ (1 << bit)) { cs[at] = nc; return Some(cs.into_iter().collect()); }
    }
    None
}

/// Another spelling of the number `t` that differs from it as little as a spelling can: the case of
/// the exponent marker, the sign of the exponent or of the number, a trailing fraction zero, `.0`
/// or `e0` appended. (Numbers are compared as written: every such pair is two different values.)
fn number_respelled(t: &str, rng: &mut Rng) -> Option<String> {
    let mut cands: Vec<String> = vec![];
    if let Some(i) = t.find(|c| c == 'e' || c == 'E') {
        let (m, e) = t.split_at(i);
        let marker = if e.starts_with('e') { "E" } else { "e" };
        cands.push(format!("{}{}{}", m, marker, &e[1..]));
        let rest = &e[1..];
        match rest.as_bytes().first() {
            Some(b'+') => { cands.push(format!("{}{}-{}", m, &e[..1], &rest[1..])); cands.push(format!("{}{}{}", m, &e[..1], &rest[1..])); }
            Some(b'-') => { cands.push(format!("{}{}+{}", m, &e[..1], &rest[1..])); cands.push(format!("{}{}{}", m, &e[..1], &rest[1..])); }
            _ => { cands.push(format!("{}{}+{}", m, &e[..1], rest)); cands.push(format!("{}{}0{}", m, &e[..1], rest)); }
        }
        if m.contains('.') { cands.push(format!("{}0{}", m, e)); } else { cands.push(format!("{}.0{}", m, e)); }
    } else {
        cands.push(format!("{}e0", t)); cands.push(format!("{}E0", t));
        if t.contains('.') { cands.push(format!("{}0", t)); } else { cands.push(format!("{}.0", t)); }
    }
    if let Some(u) = t.strip_prefix('-') { cands.push(u.to_string()); } else { cands.push(format!("-{}", t)); }
    cands.retain(|c| c != t && json_syntax::NumberBuf::new(c.as_bytes().into()).is_ok());
    if cands.is_empty() { None } else { Some(cands[rng.usize_below(cands.len())].clone()) }
}

/// A value of another kind that an over-eager comparison might confuse with `v`: the same text as
/// a leaf of another kind (a number as a string and back, a literal as a string), the "empty" or
/// "zero" value of another kind (null, false, 0, "", [], {}), true against 1.
fn other_kind_same_text(v: &Value) -> Option<Value> { kin(v, 0) }
fn kin(v: &Value, pick: usize) -> Option<Value> {
    let num = |t: &str| Value::Number(json_syntax::NumberBuf::new(t.as_bytes().into()).unwrap());
    let empties = |skip: usize| -> Value { [Value::Null, Value::Boolean(false), num("0"), Value::String("".into()), Value::Array(vec![].into()), Value::Object(Object::new())][(skip + 1 + pick % 5) % 6].clone() };
    match v {
        Value::Number(n) => if pick % 3 == 2 && n.as_str() == "0" { Some(empties(2)) } else if pick % 3 == 2 && n.as_str() == "1" { Some(Value::Boolean(true)) } else { Some(Value::String(n.as_str().into())) },
        Value::String(s) if s.is_empty() => Some(empties(3)),
        Value::String(s) => json_syntax::NumberBuf::new(s.as_str().as_bytes().into()).ok().map(Value::Number),
        Value::Null => if pick % 2 == 0 { Some(Value::String("null".into())) } else { Some(empties(0)) },
        Value::Boolean(b) => match pick % 3 { 0 => Some(Value::String(if *b { "true" } else { "false" }.into())), 1 => Some(num(if *b { "1" } else { "0" })), _ => if *b { Some(Value::Boolean(false)) } else { Some(empties(1)) } },
        Value::Array(a) if a.is_empty() => Some(empties(4)),
        Value::Object(o) if o.is_empty() => Some(empties(5)),
        _ => None,
    }
}

/// Change exactly one leaf somewhere inside `v` (descending into arrays and objects at random).
fn change_one_deep_leaf(v: &mut Value, rng: &mut Rng) {
    match v {
        Value::Array(a) if !a.is_empty() && rng.chance(1, 4) => {
            // the array itself: one item more (a copy of the last, or null), one item fewer, two neighbours exchanged
            match rng.below(4) {
                0 => { let x = a[a.len() - 1].clone(); a.push(x); }
                1 => a.push(Value::Null),
                2 => { a.pop(); }
                _ => { let i = rng.usize_below(a.len()); if i + 1 < a.len() && !same_value(&a[i], &a[i + 1]) { a.swap(i, i + 1); } else { a.insert(0, Value::Null); } }
            }
        }
        Value::Array(a) if !a.is_empty() => { let i = rng.usize_below(a.len()); change_one_deep_leaf(&mut a[i], rng) }
        Value::Object(o) if !o.is_empty() => {
            let i = rng.usize_below(o.len());
            if let Some((_, slot)) = o.iter_mut().nth(i) { change_one_deep_leaf(slot, rng) }
        }
        Value::Number(_) | Value::String(_) | Value::Null | Value::Boolean(_) if rng.chance(1, 8) => { let inner = v.clone(); *v = Value::Array(vec![inner].into()); }
        Value::Number(_) | Value::String(_) | Value::Null | Value::Boolean(_) if rng.chance(1, 6) && other_kind_same_text(v).is_some() => { let k = rng.usize_below(30); *v = kin(v, k).or_else(|| other_kind_same_text(v)).unwrap(); }
        Value::Number(n) if rng.chance(1, 3) && number_respelled(n.as_str(), &mut rng.clone()).is_some() => { let t = number_respelled(n.as_str(), rng).unwrap(); *v = Value::Number(json_syntax::NumberBuf::new(t.as_bytes().into()).unwrap()); }
        Value::Number(n) => {
            // one digit moved to its neighbour (first, last or any digit), or the whole number replaced
            let t = n.as_str().to_string();
            let digits: Vec<usize> = t.bytes().enumerate().filter(|(_, b)| b.is_ascii_digit()).map(|(i, _)| i).collect();
            let mut done = false;
            if rng.chance(1, 2) && !digits.is_empty() {
                let at = digits[match rng.below(3) { 0 => 0, 1 => digits.len() - 1, _ => rng.usize_below(digits.len()) }];
                let mut b = t.clone().into_bytes();
                b[at] = if b[at] == b'9' { b'8' } else { b[at] + 1 };
                if let Ok(m) = json_syntax::NumberBuf::new(b.as_slice().into()) { *v = Value::Number(m); done = true; }
            }
            if !done { *v = Value::Number(if t == "7" { json_syntax::NumberBuf::new("8".as_bytes().into()).unwrap() } else { json_syntax::NumberBuf::new("7".as_bytes().into()).unwrap() }) }
        }
        Value::String(s) => {
            // one character changed in a single bit (first, last or any character), or one character appended
            let t = s.as_str().to_string();
            let t = match if rng.chance(1, 2) { flip_char(&t, rng) } else { None } { Some(x) => x, None => { let mut x = t; x.push('!'); x } };
            *v = Value::String(t.as_str().into())
        }
        other => *other = different_leaf(other),
    }
}

/// The laws of a coherent total order, equality and hash over every pair and triple of `pool`.
fn pool_laws(pool: &[Value], st: &mut Stats, d: &mut Digest) -> Option<Violation> {
    let n = pool.len();
    let mut rels = vec![vec![None; n]; n];
    for i in 0..n {
        for j in 0..n {
            let r = match rel(&pool[i], &pool[j]) { Ok(r) => r, Err(m) => return viol("c14.panic", format!("{} vs {}: {}", pool[i], pool[j], m)) };
            let same = same_value(&pool[i], &pool[j]);
            st.bump("pool_pairs_checked");
            let what = || format!("{} vs {}", pool[i], pool[j]);
            if r.eq != same || r.ne == same { return viol("c14.eq_vs_structure", format!("{}: == is {} but the values are structurally {}", what(), r.eq, if same { "identical" } else { "different" })); }
            if (r.cmp == Ordering::Equal) != same { return viol("c14.ord_equal_iff_eq", format!("{}: cmp = {:?} but the values are structurally {}", what(), r.cmp, if same { "identical" } else { "different" })); }
            if r.cmp != r.cmp_rev.reverse() { return viol("c14.ord_antisymmetry", format!("{}: cmp(a,b) = {:?} but cmp(b,a) = {:?}", what(), r.cmp, r.cmp_rev)); }
            if r.pcmp != Some(r.cmp) { return viol("c14.partial_cmp", format!("{}: partial_cmp = {:?} but cmp = {:?}", what(), r.pcmp, r.cmp)); }
            if !ops_agree(&r) { return viol("c14.partial_cmp", format!("{}: the operators <, <=, >, >= answer {:?} but cmp = {:?}", what(), r.ops, r.cmp)); }
            if same && !r.hash_same { return viol("c14.hash_eq", format!("{}: equal values hash differently", what())); }
            rels[i][j] = Some(r.cmp);
            d.u8(r.cmp as i8 as u8);
        }
    }
    for i in 0..n { for j in 0..n { for k in 0..n {
        if let (Some(a), Some(b), Some(c)) = (rels[i][j], rels[j][k], rels[i][k]) {
            if a != Ordering::Greater && b != Ordering::Greater && c == Ordering::Greater {
                return viol("c14.transitivity", format!("{} <= {} and {} <= {} but {} > {}", pool[i], pool[j], pool[j], pool[k], pool[i], pool[k]));
            }
        }
    } } }
    st.add("pool_triples_checked", (n * n * n) as u64);
    None
}

/// `run_c14_inner` with every panic contained (building a twin or a near copy, cloning, dumping the
/// index): a panic of the library there is `c14.panic`, not the death of a worker thread.
pub fn run_c14(sc: &HistSc, st: &mut Stats) -> super::c06::HistOutcome {
    match catch_unwind(AssertUnwindSafe(|| run_c14_inner(sc, st))) {
        Ok(o) => o,
        Err(p) => super::c06::HistOutcome { violation: viol("c14.panic", format!("building, cloning or comparing values panicked: {}", super::c06::payload_text(p.as_ref()))), outcome: 0, nontrivial: false },
    }
}

fn run_c14_inner(sc: &HistSc, st: &mut Stats) -> super::c06::HistOutcome {
    use super::c06::HistOutcome;
    set_hash_config(hash_mode_of(&sc.hash_mode), sc.hash_seed);
    let mut regs: [Object; REGISTERS] = [Object::new(), Object::new(), Object::new()];
    let mut pool: Vec<Value> = vec![];
    let mut maps: [Option<json_syntax::CodeMap>; REGISTERS] = [None, None, None];
    let mut nontrivial = false;
    let mut d = Digest::default();
    let mut rng = Rng::new(sc.twin_seed);
    for (step, op) in sc.ops.iter().enumerate() {
        // keep the history's own hash configuration for objects the history creates
        set_hash_config(hash_mode_of(&sc.hash_mode), sc.hash_seed ^ (step as u64) << 32);
        match apply_real(op, &mut regs, &mut maps, step) {
            Applied::Ok(_) => {}
            Applied::Panicked(_) => { st.note("an object operation panicked (a C06 matter); run abandoned", 0, || op.to_json().to_string_compact()); break; }
        }
        // observe after every step (hash, ==, cmp): an observation must not change any later answer —
        // a cache filled here and not invalidated by a later mutation shows at the next checkpoint
        {
            let q = op.reg();
            let _ = catch_unwind(AssertUnwindSafe(|| {
                let h = h_sip(&regs[q]);
                let e = regs[q] == regs[q];
                let c = regs[q].cmp(&regs[(q + 1) % REGISTERS]);
                let v = Value::Object(regs[q].clone());
                (h, e, c, h_fnv(&v))
            }));
        }
        if !sc.checkpoints.contains(&step) { continue; }
        let r = match op { Op::CloneTo { dst, .. } => *dst, _ => op.reg() };
        let orig = regs[r].clone_from_ref();
        let obs: Vec<Entry> = orig.entries().to_vec();
        let (_, orig_dump) = regs[r].verif_index_dump();
        let orig_buckets = regs[r].verif_index_dump().0;
        d.u64(entries_digest(&obs));
        st.bump("checkpoints");
        // convergent twins
        for route in 0..ROUTES.len() {
            let twin = match build_twin(route, &obs, &mut rng, &regs[r]) { Some(t) => t, None => continue };
            // (a clone is not a reconstruction: "clones equal their originals" is C14's own sentence, so a
            // clone / clone_from that holds other entries is judged, not skipped)
            let is_clone = route == 5 || route == 9;
            if !is_clone && !same_observed(&twin, &obs) { st.note("twin construction did not reproduce the entry list (a C06 matter); twin skipped", 0, || format!("route {} for {}", ROUTES[route], show(&obs))); continue; }
            let (tb, tdump) = twin.verif_index_dump();
            let layout_differs = tb != orig_buckets || tdump != orig_dump;
            st.bump("twin_pairs_compared");
            if layout_differs { st.bump("twin_pairs_with_different_index_state"); nontrivial = true; st.extra("distinct_twin_pairs(route, entry list) with differing index dumps", entries_digest(&obs) ^ (route as u64 + 1).wrapping_mul(0x9e37_79b9_7f4a_7c15)); }
            st.cell(route as u8, 0, 0);
            let what = format!("object reached by the history vs twin built by {} holding {}", ROUTES[route], show(&obs));
            if let Some(v) = must_be_equal(&regs[r], &twin, &what) { return HistOutcome { violation: Some(v), outcome: d.finish(), nontrivial }; }
            let (va, vb) = (Value::Object(regs[r].clone()), Value::Object(twin.clone()));
            if let Some(v) = must_be_equal(&va, &vb, &format!("Value::Object of {}", what)) { return HistOutcome { violation: Some(v), outcome: d.finish(), nontrivial }; }
            let (aa, ab) = (Value::Array(vec![Value::Null, va].into()), Value::Array(vec![Value::Null, vb].into()));
            if let Some(v) = must_be_equal(&aa, &ab, &format!("Value::Array around {}", what)) { return HistOutcome { violation: Some(v), outcome: d.finish(), nontrivial }; }
        }
        // near copies
        if !obs.is_empty() {
            // position of the difference: biased to the ends (a comparison that stops early or skips a tail shows there)
            let j = match rng.below(4) { 0 => 0, 1 => obs.len() - 1, 2 => obs.len() - 1 - rng.usize_below(obs.len().min(64)), _ => rng.usize_below(obs.len()) };
            set_hash_config(hash_mode_of("good"), rng.next_u64());
            let mut near: Vec<(&'static str, Vec<Entry>)> = vec![];
            { let mut e = obs.clone(); e[j].value = different_leaf(&e[j].value); near.push(("one value changed", e)); }
            if let Some(w) = kin(&obs[j].value, rng.usize_below(30)) { let mut e = obs.clone(); e[j].value = w; near.push(("one value turned into its kin of another kind (same text, or the other kind's empty / zero value)", e)); }
            {
                // one value wrapped into a one-item array / a one-entry object, or a one-item array unwrapped
                let v = obs[j].value.clone();
                let w = match (&v, rng.below(3)) {
                    (Value::Array(a), 0) if a.len() == 1 => a[0].clone(),
                    (_, 1) => Value::Object(Object::from_vec(vec![Entry::new(Key::from(""), v.clone())])),
                    _ => Value::Array(vec![v.clone()].into()),
                };
                let mut e = obs.clone(); e[j].value = w; near.push(("one value wrapped into (or unwrapped from) a one-item container", e));
            }
            if let Value::Number(n) = &obs[j].value { if let Some(t) = number_respelled(n.as_str(), &mut rng) { let mut e = obs.clone(); e[j].value = Value::Number(json_syntax::NumberBuf::new(t.as_bytes().into()).unwrap()); near.push(("one number respelled (exponent marker, sign, trailing zero)", e)); } }
            { let mut e = obs.clone(); change_one_deep_leaf(&mut e[j].value, &mut rng); near.push(("one leaf changed inside a nested value", e)); }
            { let mut e = obs.clone(); let mut k = e[j].key.as_str().to_string(); k.push('~'); e[j].key = Key::from(k.as_str()); near.push(("one key changed", e)); }
            {
                // a key and the same key with one more character of the lowest / highest kind, or one fewer
                let mut e = obs.clone(); let mut k = e[j].key.as_str().to_string();
                match rng.below(4) { 0 => k.push('\u{0}'), 1 => k.push('\u{10ffff}'), 2 => { k.push('\u{0}'); k.push('\u{0}'); } _ => { if k.pop().is_none() { k.push('\u{0}'); } } }
                e[j].key = Key::from(k.as_str()); near.push(("one key extended by U+0000 / U+10FFFF or shortened by one character", e));
            }
            {
                // one key replaced by another key that occurs in the object (if it differs)
                let other = obs[rng.usize_below(obs.len())].key.clone();
                if other.as_str() != obs[j].key.as_str() { let mut e = obs.clone(); e[j].key = other; near.push(("one key replaced by another key of the object", e)); }
            }
            {
                // one character of one key moved to another plane (same low 16 bits) or to its neighbour
                let k = obs[j].key.as_str();
                if let Some(c) = k.chars().last() {
                    let cp = c as u32;
                    let cands = [cp ^ 0x10_0000, cp ^ 0x1_0000, cp + 1, cp ^ 0x100];
                    if let Some(nc) = cands.iter().filter_map(|x| char::from_u32(*x)).find(|x| *x != c) {
                        let mut nk: String = k.chars().take(k.chars().count() - 1).collect(); nk.push(nc);
                        let mut e = obs.clone(); e[j].key = Key::from(nk.as_str()); near.push(("last character of one key moved to another plane / neighbour", e));
                    }
                }
            }
            if let Some(nk) = flip_char(obs[j].key.as_str(), &mut rng) { let mut e = obs.clone(); e[j].key = Key::from(nk.as_str()); near.push(("one character of one key changed in one bit", e)); }
            if let Value::String(t) = &obs[j].value { if let Some(nt) = flip_char(t.as_str(), &mut rng) { let mut e = obs.clone(); e[j].value = Value::String(nt.as_str().into()); near.push(("one character of one string value changed in one bit", e)); } }
            if j + 1 < obs.len() {
                // the boundary between two adjacent keys moved by one character (the concatenation of all keys stays the same)
                let (k1, k2) = (obs[j].key.as_str().to_string(), obs[j + 1].key.as_str().to_string());
                let moved = if let Some(c) = k1.chars().last() { let mut a = k1.clone(); a.pop(); Some((a, format!("{}{}", c, k2))) } else if let Some(c) = k2.chars().next() { Some((c.to_string(), k2[c.len_utf8()..].to_string())) } else { None };
                if let Some((a, b)) = moved { let mut e = obs.clone(); e[j].key = Key::from(a.as_str()); e[j + 1].key = Key::from(b.as_str()); near.push(("the boundary between two adjacent keys moved by one character", e)); }
            }
            { let mut e = obs.clone(); let x = e[j].clone(); e.push(x); near.push(("one entry duplicated", e)); }
            { let mut e = obs.clone(); e.remove(j); near.push(("one entry removed", e)); }
            if j + 1 < obs.len() && !(obs[j].key.as_str() == obs[j + 1].key.as_str() && same_value(&obs[j].value, &obs[j + 1].value)) { let mut e = obs.clone(); e.swap(j, j + 1); near.push(("two adjacent entries swapped", e)); }
            for (how, e) in near {
                let other = match catch_unwind(AssertUnwindSafe(|| Object::from_vec(e.clone()))) { Ok(o) => o, Err(_) => continue };
                if !same_observed(&other, &e) { continue; }
                st.bump("near_copies_compared");
                let what = format!("{} vs near copy ({}) {}", show(&obs), how, show(&e));
                if let Some(v) = must_differ(&regs[r], &other, &what) { return HistOutcome { violation: Some(v), outcome: d.finish(), nontrivial }; }
                if let Some(v) = must_differ(&Value::Object(regs[r].clone()), &Value::Object(other.clone()), &format!("Value::Object of {}", what)) { return HistOutcome { violation: Some(v), outcome: d.finish(), nontrivial }; }
                // the same pair one level down: below an array, and as a member value of another object
                // (a comparison may treat what it reaches through a container differently)
                let (wa, wb) = (Value::Array(vec![Value::Null, Value::Object(regs[r].clone())].into()), Value::Array(vec![Value::Null, Value::Object(other.clone())].into()));
                if let Some(v) = must_differ(&wa, &wb, &format!("Value::Array around {}", what)) { return HistOutcome { violation: Some(v), outcome: d.finish(), nontrivial }; }
                let (oa, ob) = (Object::from_vec(vec![Entry::new(Key::from("w"), wa)]), Object::from_vec(vec![Entry::new(Key::from("w"), wb)]));
                if let Some(v) = must_differ(&oa, &ob, &format!("an object holding the Value::Array around {}", what)) { return HistOutcome { violation: Some(v), outcome: d.finish(), nontrivial }; }
                if pool.len() < 10 && rng.chance(1, 3) { pool.push(Value::Object(other)); }
            }
        }
        // same fragments in the same traversal order, different structure: trailing entries / items
        // moved into (or out of) the preceding nested container. A comparison that flattens values
        // (walks both traversals side by side) cannot tell these apart.
        if obs.len() >= 2 {
            let m = 1 + rng.usize_below(obs.len() - 1);
            set_hash_config(hash_mode_of("good"), rng.next_u64());
            let built = catch_unwind(AssertUnwindSafe(|| {
                let inner_part = Value::Object(Object::from_vec(obs[..m].to_vec()));
                let inner_all = Value::Object(Object::from_vec(obs.to_vec()));
                let mut a = vec![Entry::new(Key::from("w"), inner_part)];
                a.extend(obs[m..].iter().cloned());
                let oa = Value::Object(Object::from_vec(a));
                let ob = Value::Object(Object::from_vec(vec![Entry::new(Key::from("w"), inner_all)]));
                let vals: Vec<Value> = obs.iter().map(|e| e.value.clone()).collect();
                let mut xa: Vec<Value> = vec![Value::Array(vals[..m].to_vec().into())];
                xa.extend(vals[m..].iter().cloned());
                let aa = Value::Array(xa.into());
                let ab = Value::Array(vec![Value::Array(vals.into())].into());
                (oa, ob, aa, ab)
            }));
            if let Ok((oa, ob, aa, ab)) = built {
                st.bump("renesting_pairs_compared");
                if let Some(v) = must_differ(&oa, &ob, &format!("{} vs the same fragments re-nested {}", oa, ob)) { return HistOutcome { violation: Some(v), outcome: d.finish(), nontrivial }; }
                if let Some(v) = must_differ(&aa, &ab, &format!("{} vs the same fragments re-nested {}", aa, ab)) { return HistOutcome { violation: Some(v), outcome: d.finish(), nontrivial }; }
                if pool.len() < 10 && rng.chance(1, 4) { pool.push(oa); pool.push(ob); }
            }
        }
        if pool.len() < 10 { pool.push(Value::Object(orig)); }
    }
    // pool laws over snapshots, near copies and a few plain values
    for v in [V::Null, V::Bool(false), V::Num("1".into()), V::Num("1.0".into()), V::Str("a".into()), V::Arr(vec![]), V::Arr(vec![V::Null]), V::Obj(vec![])] { if pool.len() < 14 && rng.chance(1, 3) { pool.push(v.build()); } }
    // a few freshly generated values together with a one-leaf near copy of each
    for _ in 0..2 {
        if pool.len() + 2 <= 16 {
            let v = gen_v(&mut rng, 0).build();
            let mut w = v.clone();
            change_one_deep_leaf(&mut w, &mut rng);
            pool.push(v); pool.push(w);
        }
    }
    if let Some(v) = pool_laws(&pool, st, &mut d) { return HistOutcome { violation: Some(v), outcome: d.finish(), nontrivial }; }
    // key and leaf order on their own: single-entry objects (or strings, numbers, short arrays) over keys of many lengths around the inline
    // capacity of a key (16 bytes) that share prefixes or not — an order that treats short and
    // long keys differently, or compares by length first, loses transitivity here
    {
        let uni = sc.universe();
        let mut alphabet: Vec<char> = vec!['a', 'm', 'z'];
        for k in uni.iter().take(8) { if let Some(c) = k.chars().next() { alphabet.push(c); } }
        if rng.chance(1, 4) { alphabet.extend(['\u{0}', 'é', '\u{ffff}', '\u{10000}', '\u{10ffff}']); }
        const LENS: [usize; 14] = [0, 1, 1, 2, 3, 7, 8, 15, 16, 17, 18, 24, 33, 40];
        let mut keys: Vec<String> = vec![];
        for _ in 0..3 { keys.push(uni[rng.usize_below(uni.len())].clone()); }
        let shared: String = (0..rng.usize_below(20)).map(|_| alphabet[rng.usize_below(alphabet.len())]).collect();
        while keys.len() < 12 {
            let mut k = if rng.chance(1, 3) { shared.clone() } else { String::new() };
            let want = *rng.pick(&LENS);
            while k.len() < want { k.push(alphabet[rng.usize_below(alphabet.len())]); }
            keys.push(k);
        }
        // half of them: one-bit siblings of the others
        for i in 0..6 { if let Some(k) = flip_char(&keys[i].clone(), &mut rng) { keys[6 + i] = k; } }
        keys.sort(); keys.dedup();
        // hand the keys over in a drawn order (not sorted)
        for i in (1..keys.len()).rev() { let j = rng.usize_below(i + 1); keys.swap(i, j); }
        // number spellings of many lengths around the inline capacity of a number (16 bytes)
        let nums: Vec<String> = (0..keys.len()).map(|_| {
            let mut t = String::new();
            if rng.chance(1, 3) { t.push('-'); }
            if rng.chance(1, 5) { t.push('0'); } else {
                t.push((b'1' + rng.below(9) as u8) as char);
                for _ in 0..*rng.pick(&[0usize, 0, 1, 2, 7, 14, 15, 16, 17, 24]) { t.push((b'0' + rng.below(10) as u8) as char); }
            }
            if rng.chance(1, 3) { t.push('.'); for _ in 0..*rng.pick(&[1usize, 1, 2, 8, 15, 20]) { t.push((b'0' + rng.below(10) as u8) as char); } }
            if rng.chance(1, 4) { t.push(*rng.pick(&['e', 'E'])); if rng.chance(1, 2) { t.push(*rng.pick(&['+', '-'])); } for _ in 0..rng.urange(1, 3) { t.push((b'0' + rng.below(10) as u8) as char); } }
            t
        }).collect();
        // what carries the keys / spellings: object keys, string values, number values, arrays of
        // different lengths over a few of them, or a mixture
        let shape = rng.below(6);
        let built = catch_unwind(AssertUnwindSafe(|| keys.iter().zip(nums.iter()).enumerate().map(|(i, (k, n))| {
            let as_key = |k: &str, rng: &mut Rng| { let v = if rng.chance(1, 8) { Value::Boolean(true) } else { Value::Null }; Value::Object(Object::from_vec(vec![Entry::new(Key::from(k), v)])) };
            match if shape == 5 { rng.below(5) } else { shape } {
                0 | 1 => as_key(k, &mut rng),
                2 => V::Str(k.clone()).build(),
                3 => {
                    // a number, a respelling of the previous one, or the same text as a string
                    let prev = if i > 0 { number_respelled(&nums[i - 1], &mut rng) } else { None };
                    match (rng.below(4), prev) { (0, Some(t)) | (1, Some(t)) => V::Num(t).build(), (2, _) => V::Str(n.clone()).build(), _ => V::Num(n.clone()).build() }
                }
                _ => {
                    // arrays of 0..3 items drawn from the first three keys / spellings
                    let len = rng.usize_below(4);
                    let items: Vec<Value> = (0..len).map(|_| { let j = rng.usize_below(3.min(keys.len())); if (i + j) % 2 == 0 { V::Str(keys[j].clone()).build() } else { V::Num(nums[j].clone()).build() } }).collect();
                    Value::Array(items.into())
                }
            }
        }).collect::<Vec<Value>>()));
        if let Ok(kpool) = built {
            st.bump("key_order_pools_checked");
            if let Some(v) = pool_laws(&kpool, st, &mut d) { return HistOutcome { violation: Some(v), outcome: d.finish(), nontrivial }; }
        }
    }
    HistOutcome { violation: None, outcome: d.finish(), nontrivial }
}

trait CloneFromRef { fn clone_from_ref(&self) -> Self; }
impl CloneFromRef for Object { fn clone_from_ref(&self) -> Object { self.clone() } }

pub struct C14Search {
    pub runs: u64,
    pub max_len: usize,
}

impl Phase for C14Search {
    fn name(&self) -> &'static str { "twin-history-search" }
    fn id(&self) -> u64 { 0xe01 }
    fn runs(&self) -> u64 { self.runs }
    fn generate(&self, seed: u64, run: u64) -> Gen {
        let mut rng = Rng::for_run(seed, self.id(), run);
        Gen::plain(Scenario::Hist(super::hist::gen_hist_with(&mut rng, self.max_len, false)))
    }
    fn execute(&self, g: &Gen, _run: u64, st: &mut Stats) -> Exec {
        match &g.sc {
            Scenario::Hist(h) => { let o = run_c14(h, st); Exec { outcome: o.outcome, digest: h.digest(), nontrivial: o.nontrivial, violation: o.violation } }
            _ => unreachable!(),
        }
    }
    fn shrink_candidates(&self, sc: &Scenario) -> Vec<Scenario> { match sc { Scenario::Hist(h) => hist_shrink_candidates(h).into_iter().map(Scenario::Hist).collect(), _ => vec![] } }
    fn chunk(&self) -> u64 { 256 }
}
