pub mod c06;
pub mod c14;
pub mod hist;
pub mod model;
