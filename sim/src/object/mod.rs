pub mod hist;
