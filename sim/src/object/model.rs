//! Reference model of `Object`: a plain ordered list of key/value pairs with the documented
//! semantics of each operation, written from the rustdoc. Trivial inside on purpose.
use json_syntax::{Object, Value};

pub type M = Vec<(String, Value)>;

/// Independent structural equality: a walk over kinds, keys and entry order through public
/// accessors, deferring only to the leaf types' own `==` (numbers, strings, booleans).
pub fn same_value(a: &Value, b: &Value) -> bool {
    // explicit work list: no recursion, no reliance on `Value: PartialEq`
    let mut work: Vec<(&Value, &Value)> = vec![(a, b)];
    while let Some((a, b)) = work.pop() {
        match (a, b) {
            (Value::Null, Value::Null) => {}
            (Value::Boolean(x), Value::Boolean(y)) => if x != y { return false; },
            (Value::Number(x), Value::Number(y)) => if x != y { return false; },
            (Value::String(x), Value::String(y)) => if x.as_str() != y.as_str() { return false; },
            (Value::Array(x), Value::Array(y)) => {
                if x.len() != y.len() { return false; }
                work.extend(x.iter().zip(y.iter()));
            }
            (Value::Object(x), Value::Object(y)) => {
                let (ex, ey) = (x.entries(), y.entries());
                if ex.len() != ey.len() { return false; }
                for (p, q) in ex.iter().zip(ey.iter()) {
                    if p.key.as_str() != q.key.as_str() { return false; }
                    work.push((&p.value, &q.value));
                }
            }
            _ => return false,
        }
    }
    true
}

pub fn same_entries(o: &Object, m: &M) -> bool {
    let es = o.entries();
    es.len() == m.len() && es.iter().zip(m.iter()).all(|(e, (k, v))| e.key.as_str() == k && same_value(&e.value, v))
}

pub fn positions(m: &M, k: &str) -> Vec<usize> { m.iter().enumerate().filter(|(_, e)| e.0 == k).map(|(i, _)| i).collect() }

fn abbreviate(items: Vec<String>) -> String {
    if items.len() <= 24 { format!("[{}]", items.join(", ")) }
    else { format!("[{}, … ({} entries) …, {}]", items[..8].join(", "), items.len(), items[items.len() - 8..].join(", ")) }
}
pub fn describe(m: &M) -> String { abbreviate(m.iter().map(|(k, v)| format!("{:?}: {}", k, v)).collect()) }
pub fn describe_obj(o: &Object) -> String { abbreviate(o.entries().iter().map(|e| format!("{:?}: {}", e.key.as_str(), e.value)).collect()) }

/// `push` / `push_entry`: append; `true` iff the key was not present.
pub fn push(m: &mut M, k: &str, v: Value) -> bool { let fresh = !m.iter().any(|e| e.0 == k); m.push((k.to_string(), v)); fresh }

/// `push_front` / `push_entry_front`: insert at position 0; `true` iff the key was not present.
pub fn push_front(m: &mut M, k: &str, v: Value) -> bool { let fresh = !m.iter().any(|e| e.0 == k); m.insert(0, (k.to_string(), v)); fresh }

/// `insert`: if the key is present, the first matching entry is replaced in place and every
/// other matching entry is removed; the removed entries are the old first one, then the others
/// by ascending position. `None` when the key was absent (the pair is pushed).
pub fn insert(m: &mut M, k: &str, v: Value) -> Option<Vec<(String, Value)>> {
    let pos = positions(m, k);
    match pos.first() {
        None => { m.push((k.to_string(), v)); None }
        Some(&first) => {
            let mut removed = vec![std::mem::replace(&mut m[first], (k.to_string(), v))];
            for &p in pos[1..].iter().rev() { removed.insert(1, m.remove(p)); }
            Some(removed)
        }
    }
}

/// `insert_front`: the pair ends up at position 0 and every other entry with that key is
/// removed. Removed entries: the old first entry if it carried the key, then the others by
/// ascending position.
pub fn insert_front(m: &mut M, k: &str, v: Value) -> Vec<(String, Value)> {
    let mut removed = vec![];
    if m.first().map(|e| e.0 == k).unwrap_or(false) {
        removed.push(std::mem::replace(&mut m[0], (k.to_string(), v)));
    } else {
        m.insert(0, (k.to_string(), v));
    }
    let pos: Vec<usize> = positions(m, k).into_iter().filter(|p| *p != 0).collect();
    let at = removed.len();
    for &p in pos.iter().rev() { removed.insert(at, m.remove(p)); }
    removed
}

/// `remove`: all entries with the key, by ascending position.
pub fn remove(m: &mut M, k: &str) -> Vec<(String, Value)> {
    let pos = positions(m, k);
    let mut removed = vec![];
    for &p in pos.iter().rev() { removed.insert(0, m.remove(p)); }
    removed
}

pub fn remove_at(m: &mut M, i: usize) -> Option<(String, Value)> { if i < m.len() { Some(m.remove(i)) } else { None } }

/// `sort`: by key, entries with the same key by value (the value order is `Value`'s own `Ord`,
/// whose coherence is C14's subject).
pub fn sort(m: &mut M) { m.sort_by(|a, b| a.0.as_str().cmp(b.0.as_str()).then_with(|| a.1.cmp(&b.1))); }
