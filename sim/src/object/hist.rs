use crate::kernel::json::J;
#[derive(Clone, Debug, PartialEq)]
pub struct HistSc {}
impl HistSc {
    pub fn to_json(&self) -> J { J::Null }
    pub fn from_json(_j: &J) -> Result<HistSc, String> { Err("todo".into()) }
    pub fn size(&self) -> usize { 0 }
}
