//! Object-history scenarios: explicit operation lists with cancellation points and a hash
//! behaviour chosen by the simulator.
use crate::kernel::json::J;
use crate::kernel::rng::{Digest, Rng};
use json_syntax::object::Key;
use json_syntax::{NumberBuf, Object, Value};

/// Serialisable value description (numbers keep their lexical form).
#[derive(Clone, Debug, PartialEq)]
pub enum V {
    Null,
    Bool(bool),
    Num(String),
    Str(String),
    Arr(Vec<V>),
    Obj(Vec<(String, V)>),
}

impl V {
    pub fn build(&self) -> Value {
        match self {
            V::Null => Value::Null,
            V::Bool(b) => Value::Boolean(*b),
            // leaf storage varies with the spelling (inline buffer vs heap with spare capacity): how a
            // leaf is stored must never be observable either
            V::Num(s) => {
                let bytes: smallvec::SmallVec<[u8; 16]> = if s.len() % 2 == 0 { smallvec::SmallVec::from_slice(s.as_bytes()) } else { let mut v = Vec::with_capacity(s.len() + 40); v.extend_from_slice(s.as_bytes()); smallvec::SmallVec::from_vec(v) };
                Value::Number(NumberBuf::new(bytes).expect("valid number in scenario"))
            }
            V::Str(s) => if s.chars().count() % 2 == 0 { Value::String(s.as_str().into()) } else { let mut t = std::string::String::with_capacity(s.len() + 40); t.push_str(s); Value::String(t.into()) },
            V::Arr(a) => Value::Array(a.iter().map(V::build).collect()),
            V::Obj(es) => {
                // nested objects are built by plain pushes (their own histories are not the subject)
                let mut o = Object::new();
                for (k, v) in es { o.push(Key::from(k.as_str()), v.build()); }
                Value::Object(o)
            }
        }
    }
    pub fn to_json(&self) -> J {
        match self {
            V::Null => J::Null,
            V::Bool(b) => J::Bool(*b),
            V::Num(s) => J::Obj(vec![("num".into(), J::Str(s.clone()))]),
            V::Str(s) => J::Str(s.clone()),
            V::Arr(a) => J::Arr(a.iter().map(V::to_json).collect()),
            V::Obj(es) => J::Obj(vec![("obj".into(), J::Arr(es.iter().map(|(k, v)| J::Arr(vec![J::Str(k.clone()), v.to_json()])).collect()))]),
        }
    }
    pub fn from_json(j: &J) -> Result<V, String> {
        Ok(match j {
            J::Null => V::Null,
            J::Bool(b) => V::Bool(*b),
            J::Str(s) => V::Str(s.clone()),
            J::Arr(a) => V::Arr(a.iter().map(V::from_json).collect::<Result<_, _>>()?),
            J::Obj(_) => {
                if let Some(n) = j.get("num") { V::Num(n.as_str().ok_or("num")?.to_string()) }
                else if let Some(es) = j.get("obj") { V::Obj(entries_from_json(es)?) }
                else { return Err("value object".into()); }
            }
            _ => return Err("value".into()),
        })
    }
    pub fn digest(&self, d: &mut Digest) {
        match self {
            V::Null => d.u8(0), V::Bool(b) => { d.u8(1); d.u8(*b as u8) } V::Num(s) => { d.u8(2); d.str(s) } V::Str(s) => { d.u8(3); d.str(s) }
            V::Arr(a) => { d.u8(4); d.usize(a.len()); for x in a { x.digest(d) } }
            V::Obj(es) => { d.u8(5); d.usize(es.len()); for (k, v) in es { d.str(k); v.digest(d) } }
        }
    }
    pub fn is_simple(&self) -> bool { matches!(self, V::Null) }
    /// JSON text of the value (used to build objects through the parser)
    pub fn write_text(&self, out: &mut String) {
        match self {
            V::Null => out.push_str("null"),
            V::Bool(b) => out.push_str(if *b { "true" } else { "false" }),
            V::Num(s) => out.push_str(s),
            V::Str(s) => write_json_string(s, out),
            V::Arr(a) => { out.push('['); for (i, x) in a.iter().enumerate() { if i > 0 { out.push_str(", "); } x.write_text(out); } out.push(']'); }
            V::Obj(es) => write_object_text(es, out),
        }
    }
}

pub fn write_json_string(s: &str, out: &mut String) {
    out.push('"');
    for c in s.chars() {
        match c {
            '"' => out.push_str("\\\""),
            '\\' => out.push_str("\\\\"),
            c if (c as u32) < 0x20 => out.push_str(&format!("\\u{:04x}", c as u32)),
            c => out.push(c),
        }
    }
    out.push('"');
}
pub fn write_object_text(es: &[(String, V)], out: &mut String) {
    out.push('{');
    for (i, (k, v)) in es.iter().enumerate() {
        if i > 0 { out.push_str(", "); }
        write_json_string(k, out);
        out.push_str(": ");
        v.write_text(out);
    }
    out.push('}');
}

pub fn entries_to_json(es: &[(String, V)]) -> J { J::Arr(es.iter().map(|(k, v)| J::Arr(vec![J::Str(k.clone()), v.to_json()])).collect()) }
pub fn entries_from_json(j: &J) -> Result<Vec<(String, V)>, String> {
    let mut out = vec![];
    for e in j.as_arr().ok_or("entries")? {
        let a = e.as_arr().ok_or("entry")?;
        if a.len() != 2 { return Err("entry arity".into()); }
        out.push((a[0].as_str().ok_or("key")?.to_string(), V::from_json(&a[1])?));
    }
    Ok(out)
}

/// What the consumer of a lazily-mutating removal iterator does with it.
#[derive(Clone, Copy, Debug, PartialEq, Eq)]
pub enum Then { Drop, Exhaust, Unwind }

#[derive(Clone, Copy, Debug, PartialEq, Eq)]
pub struct Cancel { pub pull: usize, pub then: Then }

impl Cancel {
    pub const EXHAUST: Cancel = Cancel { pull: 0, then: Then::Exhaust };
    fn to_json(self) -> J { J::Obj(vec![("pull".into(), J::UInt(self.pull as u64)), ("then".into(), J::from(match self.then { Then::Drop => "drop", Then::Exhaust => "exhaust", Then::Unwind => "unwind" }))]) }
    fn from_json(j: &J) -> Result<Cancel, String> {
        Ok(Cancel { pull: j.get("pull").and_then(J::as_u64).ok_or("pull")? as usize, then: match j.get("then").and_then(J::as_str) { Some("drop") => Then::Drop, Some("exhaust") => Then::Exhaust, Some("unwind") => Then::Unwind, _ => return Err("then".into()) } })
    }
}

/// How a key-based query names its key (all three must hash and compare alike).
#[derive(Clone, Debug, PartialEq)]
pub enum Op {
    Push { r: usize, k: String, v: V },
    PushEntry { r: usize, k: String, v: V },
    PushFront { r: usize, k: String, v: V },
    PushEntryFront { r: usize, k: String, v: V },
    Insert { r: usize, k: String, v: V, c: Cancel },
    InsertFront { r: usize, k: String, v: V, c: Cancel },
    Remove { r: usize, k: String, c: Cancel },
    RemoveAt { r: usize, i: usize },
    RemoveUnique { r: usize, k: String },
    Sort { r: usize },
    FromVec { r: usize, es: Vec<(String, V)> },
    FromIterEntries { r: usize, es: Vec<(String, V)> },
    FromIterPairs { r: usize, es: Vec<(String, V)> },
    /// the register becomes the object parsed from the JSON text of `es` (its code map is kept
    /// until the next mutation, so that the mapped key queries can be checked too)
    FromParse { r: usize, es: Vec<(String, V)> },
    ExtendEntries { r: usize, es: Vec<(String, V)> },
    ExtendPairs { r: usize, es: Vec<(String, V)> },
    /// `extend` from a source iterator that panics after yielding `after` items (a fault of the
    /// caller-provided iterator); `pairs`: through `Extend<(Key, Value)>` instead of `Extend<Entry>`
    ExtendPanicking { r: usize, es: Vec<(String, V)>, after: usize, pairs: bool },
    /// `get_or_insert_with` / (`mutable`) `get_mut_or_insert_with` with a default closure that panics:
    /// nothing may change when the key is absent (the closure is not called when it is present)
    GetOrInsertPanicking { r: usize, k: String, mutable: bool },
    /// extend register r with a clone of the entries of register s
    ExtendFrom { r: usize, s: usize },
    /// through `iter_mut()`, replace the value of entry `i` (if any)
    IterMutSet { r: usize, i: usize, v: V },
    /// `get_mut(k)`: pull `pull` values, overwrite each pulled one with `v`
    GetMutSet { r: usize, k: String, pull: usize, v: V },
    GetUniqueMutSet { r: usize, k: String, v: V },
    GetOrInsertWith { r: usize, k: String, v: V },
    GetMutOrInsertWith { r: usize, k: String, v: V, set: Option<V> },
    /// `clone` into register `dst`, or (`from`) `Clone::clone_from` onto whatever `dst` holds
    CloneTo { r: usize, dst: usize, from: bool },
    IntoIterRebuild { r: usize },
    Fresh { r: usize },
}

impl Op {
    pub fn name(&self) -> &'static str {
        match self {
            Op::Push { .. } => "push", Op::PushEntry { .. } => "push_entry", Op::PushFront { .. } => "push_front", Op::PushEntryFront { .. } => "push_entry_front",
            Op::Insert { .. } => "insert", Op::InsertFront { .. } => "insert_front", Op::Remove { .. } => "remove", Op::RemoveAt { .. } => "remove_at", Op::RemoveUnique { .. } => "remove_unique",
            Op::Sort { .. } => "sort", Op::FromVec { .. } => "from_vec", Op::FromIterEntries { .. } => "from_iter_entries", Op::FromIterPairs { .. } => "from_iter_pairs", Op::FromParse { .. } => "from_parse", Op::ExtendPanicking { .. } => "extend_panicking", Op::GetOrInsertPanicking { .. } => "get_or_insert_panicking",
            Op::ExtendEntries { .. } => "extend_entries", Op::ExtendPairs { .. } => "extend_pairs", Op::ExtendFrom { .. } => "extend_from", Op::IterMutSet { .. } => "iter_mut_set",
            Op::GetMutSet { .. } => "get_mut_set", Op::GetUniqueMutSet { .. } => "get_unique_mut_set", Op::GetOrInsertWith { .. } => "get_or_insert_with",
            Op::GetMutOrInsertWith { .. } => "get_mut_or_insert_with", Op::CloneTo { .. } => "clone_to", Op::IntoIterRebuild { .. } => "into_iter_rebuild", Op::Fresh { .. } => "fresh",
        }
    }
    pub const NAMES: [&'static str; 27] = ["push", "push_entry", "push_front", "push_entry_front", "insert", "insert_front", "remove", "remove_at", "remove_unique", "sort", "from_vec",
        "from_iter_entries", "from_iter_pairs", "extend_entries", "extend_pairs", "extend_from", "iter_mut_set", "get_mut_set", "get_unique_mut_set", "get_or_insert_with",
        "get_mut_or_insert_with", "clone_to", "into_iter_rebuild", "fresh", "from_parse", "extend_panicking", "get_or_insert_panicking"];
    pub fn index(&self) -> usize { Op::NAMES.iter().position(|n| *n == self.name()).unwrap() }
    pub fn reg(&self) -> usize {
        match self {
            Op::Push { r, .. } | Op::PushEntry { r, .. } | Op::PushFront { r, .. } | Op::PushEntryFront { r, .. } | Op::Insert { r, .. } | Op::InsertFront { r, .. } | Op::Remove { r, .. }
            | Op::RemoveAt { r, .. } | Op::RemoveUnique { r, .. } | Op::Sort { r } | Op::FromVec { r, .. } | Op::FromIterEntries { r, .. } | Op::FromIterPairs { r, .. } | Op::FromParse { r, .. } | Op::GetOrInsertPanicking { r, .. } | Op::ExtendPanicking { r, .. } | Op::ExtendEntries { r, .. }
            | Op::ExtendPairs { r, .. } | Op::ExtendFrom { r, .. } | Op::IterMutSet { r, .. } | Op::GetMutSet { r, .. } | Op::GetUniqueMutSet { r, .. } | Op::GetOrInsertWith { r, .. }
            | Op::GetMutOrInsertWith { r, .. } | Op::CloneTo { r, .. } | Op::IntoIterRebuild { r } | Op::Fresh { r } => *r,
        }
    }
    pub fn key(&self) -> Option<&str> {
        match self {
            Op::Push { k, .. } | Op::PushEntry { k, .. } | Op::PushFront { k, .. } | Op::PushEntryFront { k, .. } | Op::Insert { k, .. } | Op::InsertFront { k, .. } | Op::Remove { k, .. }
            | Op::RemoveUnique { k, .. } | Op::GetMutSet { k, .. } | Op::GetUniqueMutSet { k, .. } | Op::GetOrInsertWith { k, .. } | Op::GetMutOrInsertWith { k, .. } | Op::GetOrInsertPanicking { k, .. } => Some(k),
            _ => None,
        }
    }
    pub fn entries(&self) -> Option<&Vec<(String, V)>> {
        match self { Op::FromVec { es, .. } | Op::FromIterEntries { es, .. } | Op::FromIterPairs { es, .. } | Op::FromParse { es, .. } | Op::ExtendPanicking { es, .. } | Op::ExtendEntries { es, .. } | Op::ExtendPairs { es, .. } => Some(es), _ => None }
    }
    pub fn cancel(&self) -> Option<Cancel> { match self { Op::Insert { c, .. } | Op::InsertFront { c, .. } | Op::Remove { c, .. } => Some(*c), _ => None } }

    pub fn to_json(&self) -> J {
        let mut o: Vec<(String, J)> = vec![("op".into(), J::from(self.name())), ("r".into(), J::UInt(self.reg() as u64))];
        if let Some(k) = self.key() { o.push(("key".into(), J::Str(k.to_string()))); }
        match self {
            Op::Push { v, .. } | Op::PushEntry { v, .. } | Op::PushFront { v, .. } | Op::PushEntryFront { v, .. } | Op::Insert { v, .. } | Op::InsertFront { v, .. } | Op::IterMutSet { v, .. }
            | Op::GetMutSet { v, .. } | Op::GetUniqueMutSet { v, .. } | Op::GetOrInsertWith { v, .. } | Op::GetMutOrInsertWith { v, .. } => o.push(("value".into(), v.to_json())),
            _ => {}
        }
        if let Some(c) = self.cancel() { o.push(("cancel".into(), c.to_json())); }
        if let Some(es) = self.entries() { o.push(("entries".into(), entries_to_json(es))); }
        match self {
            Op::RemoveAt { i, .. } | Op::IterMutSet { i, .. } => o.push(("index".into(), J::UInt(*i as u64))),
            Op::GetMutSet { pull, .. } => o.push(("pull".into(), J::UInt(*pull as u64))),
            Op::ExtendFrom { s, .. } => o.push(("src".into(), J::UInt(*s as u64))),
            Op::GetOrInsertPanicking { mutable, .. } => o.push(("mutable".into(), J::Bool(*mutable))),
            Op::ExtendPanicking { after, pairs, .. } => { o.push(("panic_after".into(), J::UInt(*after as u64))); o.push(("pairs".into(), J::Bool(*pairs))); }
            Op::CloneTo { dst, from, .. } => { o.push(("dst".into(), J::UInt(*dst as u64))); o.push(("clone_from".into(), J::Bool(*from))); }
            Op::GetMutOrInsertWith { set, .. } => o.push(("set".into(), set.as_ref().map(V::to_json).map(|j| J::Arr(vec![j])).unwrap_or(J::Arr(vec![])))),
            _ => {}
        }
        J::Obj(o)
    }

    pub fn from_json(j: &J) -> Result<Op, String> {
        let name = j.get("op").and_then(J::as_str).ok_or("op")?;
        let r = j.get("r").and_then(J::as_u64).ok_or("r")? as usize;
        let k = || j.get("key").and_then(J::as_str).map(String::from).ok_or_else(|| "key".to_string());
        let v = || j.get("value").ok_or_else(|| "value".to_string()).and_then(V::from_json);
        let c = || j.get("cancel").ok_or_else(|| "cancel".to_string()).and_then(Cancel::from_json);
        let es = || j.get("entries").ok_or_else(|| "entries".to_string()).and_then(entries_from_json);
        let u = |n: &str| j.get(n).and_then(J::as_u64).map(|x| x as usize).ok_or_else(|| n.to_string());
        Ok(match name {
            "push" => Op::Push { r, k: k()?, v: v()? }, "push_entry" => Op::PushEntry { r, k: k()?, v: v()? },
            "push_front" => Op::PushFront { r, k: k()?, v: v()? }, "push_entry_front" => Op::PushEntryFront { r, k: k()?, v: v()? },
            "insert" => Op::Insert { r, k: k()?, v: v()?, c: c()? }, "insert_front" => Op::InsertFront { r, k: k()?, v: v()?, c: c()? },
            "remove" => Op::Remove { r, k: k()?, c: c()? }, "remove_at" => Op::RemoveAt { r, i: u("index")? }, "remove_unique" => Op::RemoveUnique { r, k: k()? },
            "sort" => Op::Sort { r }, "from_vec" => Op::FromVec { r, es: es()? }, "from_iter_entries" => Op::FromIterEntries { r, es: es()? }, "from_iter_pairs" => Op::FromIterPairs { r, es: es()? }, "from_parse" => Op::FromParse { r, es: es()? }, "get_or_insert_panicking" => Op::GetOrInsertPanicking { r, k: k()?, mutable: j.get("mutable").and_then(J::as_bool).unwrap_or(false) },
            "extend_panicking" => Op::ExtendPanicking { r, es: es()?, after: u("panic_after")?, pairs: j.get("pairs").and_then(J::as_bool).unwrap_or(false) },
            "extend_entries" => Op::ExtendEntries { r, es: es()? }, "extend_pairs" => Op::ExtendPairs { r, es: es()? }, "extend_from" => Op::ExtendFrom { r, s: u("src")? },
            "iter_mut_set" => Op::IterMutSet { r, i: u("index")?, v: v()? }, "get_mut_set" => Op::GetMutSet { r, k: k()?, pull: u("pull")?, v: v()? },
            "get_unique_mut_set" => Op::GetUniqueMutSet { r, k: k()?, v: v()? }, "get_or_insert_with" => Op::GetOrInsertWith { r, k: k()?, v: v()? },
            "get_mut_or_insert_with" => Op::GetMutOrInsertWith { r, k: k()?, v: v()?, set: match j.get("set").and_then(J::as_arr) { Some([x]) => Some(V::from_json(x)?), _ => None } },
            "clone_to" => Op::CloneTo { r, dst: u("dst")?, from: j.get("clone_from").and_then(J::as_bool).unwrap_or(false) }, "into_iter_rebuild" => Op::IntoIterRebuild { r }, "fresh" => Op::Fresh { r },
            x => return Err(format!("unknown op {}", x)),
        })
    }

    pub fn digest(&self, d: &mut Digest) {
        d.u8(self.index() as u8); d.usize(self.reg());
        if let Some(k) = self.key() { d.str(k); }
        match self {
            Op::Push { v, .. } | Op::PushEntry { v, .. } | Op::PushFront { v, .. } | Op::PushEntryFront { v, .. } | Op::Insert { v, .. } | Op::InsertFront { v, .. } | Op::IterMutSet { v, .. }
            | Op::GetMutSet { v, .. } | Op::GetUniqueMutSet { v, .. } | Op::GetOrInsertWith { v, .. } | Op::GetMutOrInsertWith { v, .. } => v.digest(d),
            _ => {}
        }
        if let Some(c) = self.cancel() { d.usize(c.pull); d.u8(c.then as u8); }
        if let Some(es) = self.entries() { d.usize(es.len()); for (k, v) in es { d.str(k); v.digest(d); } }
        match self { Op::RemoveAt { i, .. } | Op::IterMutSet { i, .. } => d.usize(*i), Op::GetMutSet { pull, .. } => d.usize(*pull), Op::ExtendFrom { s, .. } => d.usize(*s), Op::ExtendPanicking { after, pairs, .. } => { d.usize(*after); d.u8(*pairs as u8) } Op::GetOrInsertPanicking { mutable, .. } => d.u8(*mutable as u8), Op::CloneTo { dst, from, .. } => { d.usize(*dst); d.u8(*from as u8) }
            Op::GetMutOrInsertWith { set, .. } => if let Some(s) = set { s.digest(d) }, _ => {} }
    }
}

pub const HASH_MODES: [&str; 7] = ["good", "collide", "lowbits1", "lowbits2", "lowbits3", "sametag", "sameslot"];

pub const REGISTERS: usize = 3;

#[derive(Clone, Debug, PartialEq)]
pub struct HistSc {
    /// one of HASH_MODES
    pub hash_mode: String,
    pub hash_seed: u64,
    pub ops: Vec<Op>,
    /// C14 only: seed of the twin-construction choices and the steps after which twins are compared
    pub twin_seed: u64,
    pub checkpoints: Vec<usize>,
}

impl HistSc {
    pub fn to_json(&self) -> J {
        J::Obj(vec![
            ("hash_mode".into(), J::from(self.hash_mode.as_str())), ("hash_seed".into(), J::UInt(self.hash_seed)), ("registers".into(), J::UInt(REGISTERS as u64)),
            ("twin_seed".into(), J::UInt(self.twin_seed)), ("checkpoints".into(), J::Arr(self.checkpoints.iter().map(|c| J::UInt(*c as u64)).collect())),
            ("ops".into(), J::Arr(self.ops.iter().map(Op::to_json).collect())),
        ])
    }
    pub fn from_json(j: &J) -> Result<HistSc, String> {
        let ops = j.get("ops").and_then(J::as_arr).ok_or("ops")?.iter().map(Op::from_json).collect::<Result<Vec<_>, _>>()?;
        for o in &ops { if o.reg() >= REGISTERS { return Err("register out of range".into()); } }
        Ok(HistSc {
            hash_mode: j.get("hash_mode").and_then(J::as_str).ok_or("hash_mode")?.to_string(),
            hash_seed: j.get("hash_seed").and_then(J::as_u64).ok_or("hash_seed")?,
            twin_seed: j.get("twin_seed").and_then(J::as_u64).unwrap_or(0),
            checkpoints: j.get("checkpoints").and_then(J::as_arr).map(|a| a.iter().filter_map(J::as_u64).map(|x| x as usize).collect()).unwrap_or_default(),
            ops,
        })
    }
    pub fn size(&self) -> usize { self.ops.len() }
    pub fn digest(&self) -> u64 {
        let mut d = Digest::default();
        d.str(&self.hash_mode); d.u64(self.hash_seed); d.u64(self.twin_seed);
        for c in &self.checkpoints { d.usize(*c); }
        for o in &self.ops { o.digest(&mut d); }
        d.finish()
    }
    /// every key mentioned anywhere in the history, plus one key that never occurs
    pub fn universe(&self) -> Vec<String> {
        let mut ks: Vec<String> = vec![];
        for o in &self.ops {
            if let Some(k) = o.key() { ks.push(k.to_string()); }
            if let Some(es) = o.entries() { for (k, _) in es { ks.push(k.clone()); } }
        }
        ks.sort(); ks.dedup();
        ks.push("\u{1}never-a-key\u{1}".to_string());
        ks
    }
}

// ---------------------------------------------------------------------------------------------
// generation
// ---------------------------------------------------------------------------------------------

const NUMS: [&str; 20] = ["0", "-0", "1", "1.0", "1e2", "10", "2", "-1.5E-3", "9", "100", "1E+2", "1.00", "0e0", "0.0", "9223372036854775807", "9223372036854775808", "-9223372036854775808", "18446744073709551616", "1e400", "-1e-400"];
const STRS: [&str; 12] = ["", "a", "b", "a string that is longer than sixteen bytes", "é", "\u{ffff}", "\u{10ffff}", "\u{e000}", "\u{10e000}", "0123456789abcde", "0123456789abcdef", "0123456789abcdefg"];

pub fn gen_v(rng: &mut Rng, depth: usize) -> V {
    // containers inside containers down to four levels (with falling odds), so that a comparison, a
    // hash or a clone that treats deeper levels differently has something to meet
    match rng.below(match depth { 0 => 12, 1 => 11, 2 => 10, _ => 9 }) {
        0 | 1 => V::Null,
        2 => V::Bool(rng.chance(1, 2)),
        3..=5 => V::Num(rng.pick(&NUMS).to_string()),
        6..=8 => V::Str(rng.pick(&STRS).to_string()),
        9 | 11 => V::Arr((0..rng.below(3)).map(|_| gen_v(rng, depth + 1)).collect()),
        _ => V::Obj((0..rng.below(4)).map(|_| (rng.pick(&["a", "b", "", "a"]).to_string(), gen_v(rng, depth + 1))).collect()),
    }
}

pub fn gen_universe(rng: &mut Rng, force_huge: Option<usize>) -> Vec<String> {
    let small = rng.chance(1, 2);
    // one run in forty: a huge universe (the raw table grows to 128..512 buckets)
    let huge = rng.chance(1, 40) || force_huge.is_some();
    let n = if let Some(n) = force_huge { n } else if huge { rng.urange(100, 400) } else if small { rng.urange(1, 3) } else { rng.urange(24, 48) };
    let style = if huge { rng.below(2) } else { rng.below(6) };
    if style == 5 {
        // keys of many lengths around the inline capacity (16 bytes) over three letters, some
        // sharing a prefix, half of them one-bit siblings of the others
        const LENS: [usize; 14] = [0, 1, 1, 2, 3, 7, 8, 15, 16, 17, 18, 24, 33, 40];
        let n = if small { rng.urange(2, 4) } else { rng.urange(8, 32) };
        // (half of these universes mix characters of every UTF-8 length into the keys: a byte offset such
        // as `len - 16` then falls inside a character)
        let letters: &[char] = if rng.chance(1, 2) { &['a', 'm', 'z'] } else { &['a', 'é', '€', '😀', 'z'] };
        let shared: String = (0..rng.usize_below(20)).map(|_| *rng.pick(letters)).collect();
        let mut keys: Vec<String> = vec![];
        while keys.len() < n {
            if keys.len() % 2 == 1 && rng.chance(2, 3) {
                let mut cs: Vec<char> = keys[keys.len() - 1].chars().collect();
                if !cs.is_empty() {
                    let at = match rng.below(3) { 0 => 0, 1 => cs.len() - 1, _ => rng.usize_below(cs.len()) };
                    cs[at] = char::from_u32(cs[at] as u32 ^ (1 << rng.below(7))).unwrap_or('a');
                    keys.push(cs.into_iter().collect());
                    continue;
                }
            }
            let mut k = if rng.chance(1, 3) { shared.clone() } else { String::new() };
            let want = *rng.pick(&LENS);
            while k.len() < want { k.push(*rng.pick(letters)); }
            keys.push(k);
        }
        return keys;
    }
    if style == 4 {
        // keys over boundary code points of the UTF-8 / UTF-16 encodings and over families of
        // characters that share their low 16 bits across planes (truncating or plane-shifting
        // comparisons collide there)
        const BOUNDARY: [u32; 16] = [0x0, 0x1, 0x7f, 0x80, 0x7ff, 0x800, 0xd7ff, 0xe000, 0xfffd, 0xffff, 0x10000, 0x1ffff, 0xe0041, 0x10e000, 0x10fffd, 0x10ffff];
        let base = 0xe000 + rng.below(0x2000) as u32;
        let mut chars: Vec<char> = BOUNDARY.iter().filter_map(|c| char::from_u32(*c)).collect();
        for p in [0u32, 1, 2, 15, 16] { if let Some(c) = char::from_u32(base % 0x10000 + p * 0x10000) { chars.push(c); } }
        for p in [0u32, 16] { if let Some(c) = char::from_u32(0xffff - rng.below(4) as u32 + p * 0x10000) { chars.push(c); } }
        let n = if small { rng.urange(2, 4) } else { rng.urange(8, 24) };
        return (0..n).map(|i| {
            let c = chars[rng.usize_below(chars.len())];
            match i % 3 { 0 => c.to_string(), 1 => format!("k{}", c), _ => format!("{}{}", c, chars[rng.usize_below(chars.len())]) }
        }).collect();
    }
    (0..n).map(|i| match (style, i) {
        (_, 0) if rng.chance(1, 4) => String::new(),
        (0, _) => format!("k{}", i),
        (1, _) => format!("a-key-with-a-long-shared-prefix-{:03}", i), // spilled to the heap (> 16 bytes)
        (2, _) => format!("é{}", i),
        _ => if i % 2 == 0 { format!("{}", (b'a' + (i % 26) as u8) as char) } else { format!("exactly-16-bytes{}", i % 10).chars().take(16).collect::<String>() + &"x".repeat(i % 3) },
    }).collect()
}

fn gen_entries(rng: &mut Rng, uni: &[String], max: usize) -> Vec<(String, V)> {
    (0..rng.urange(0, max)).map(|_| (rng.pick(uni).clone(), gen_v(rng, 1))).collect()
}

fn gen_cancel(rng: &mut Rng) -> Cancel {
    let then = match rng.below(10) { 0..=3 => Then::Drop, 4..=7 => Then::Exhaust, _ => Then::Unwind };
    Cancel { pull: rng.usize_below(5), then }
}

/// Draw a history. `max_len` bounds the number of operations.
pub fn gen_hist(rng: &mut Rng, max_len: usize) -> HistSc { gen_hist_with(rng, max_len, true) }

/// `giant_allowed`: C14 rebuilds every checkpointed object by ten routes and compares pools of
/// copies, which is quadratic work on a 70 000-entry object; its histories stop at the large profile.
pub fn gen_hist_with(rng: &mut Rng, max_len: usize, giant_allowed: bool) -> HistSc {
    // profiles: 1/400 grow-then-drain (the index grows to 128..512 buckets and is then emptied
    // entry by entry), 3/400 very large objects (1000..2600 entries), otherwise ordinary
    let profile = rng.below(400);
    let drain = profile == 0;
    // one history in 4000 is *giant*: 4096..70000 entries in one bulk operation (size thresholds of
    // the library at 2^12, 2^13, 2^16 entries), then a sort half of the time and very few operations
    let giant = profile == 4 && rng.chance(1, 10) && giant_allowed;
    let large = (1..=3).contains(&profile) || giant;
    let forced = if drain { Some(rng.urange(60, 300)) } else if large { Some(rng.urange(100, 1500)) } else { None };
    let uni = gen_universe(rng, forced);
    let hash_mode = if rng.chance(1, 2) { "good" } else { *rng.pick(&HASH_MODES) }.to_string();
    let hash_seed = rng.next_u64();
    // swarm: per-run operation weights, a random subset of operations disabled
    let mut w: Vec<u32> = (0..Op::NAMES.len()).map(|_| if rng.chance(1, 4) { 0 } else { rng.range(1, 8) as u32 }).collect();
    // keep the object growing on average: pushes stay enabled
    w[0] = w[0].max(4);
    w[23] = w[23].min(1); // `fresh` (reset) rarely
    let len = if giant { rng.urange(1, 3) } else if large { rng.urange(1, 6) } else if uni.len() >= 100 || drain { rng.urange(1, 16) } else if rng.chance(1, 10) { rng.urange(1, max_len) } else { rng.urange(1, max_len.min(24)) };
    let regs = if rng.chance(1, 2) { 1 } else { REGISTERS };
    let mut ops = Vec::with_capacity(len);
    if uni.len() >= 100 || drain {
        // bulk start so that the index is large from the first step
        let n = if giant { *rng.pick(&[4096usize, 4097, 5000, 8191, 8192, 9000, 20_000, 65_536, 70_000]) } else if large { rng.urange(1000, 2600) } else if drain { uni.len() + rng.urange(0, uni.len() / 3) } else { rng.urange(uni.len() / 2, uni.len() + 40) };
        let es: Vec<(String, V)> = (0..n).map(|i| (if drain && i < uni.len() { uni[i].clone() } else { rng.pick(&uni).clone() }, if rng.chance(1, 4) { gen_v(rng, 1) } else { V::Null })).collect();
        ops.push(match rng.below(3) { 0 => Op::FromVec { r: 0, es }, 1 => Op::ExtendEntries { r: 0, es }, _ => Op::FromParse { r: 0, es } });
        if giant && rng.chance(1, 2) { ops.push(Op::Sort { r: 0 }); }
        if drain {
            // empty the object again, entry by entry, from one end, the middle, or key by key
            let mut left = n;
            let keep = rng.urange(0, 30);
            let pattern = rng.below(4);
            let mut next_key = 0;
            while left > keep && next_key < uni.len() + 1 {
                match pattern {
                    0 => { ops.push(Op::RemoveAt { r: 0, i: 0 }); left -= 1; }
                    1 => { ops.push(Op::RemoveAt { r: 0, i: left - 1 }); left -= 1; }
                    2 => { ops.push(Op::RemoveAt { r: 0, i: left / 2 }); left -= 1; }
                    _ => {
                        if next_key >= uni.len() { break; }
                        let k = uni[next_key].clone(); next_key += 1;
                        ops.push(if rng.chance(1, 2) { Op::Remove { r: 0, k, c: gen_cancel(rng) } } else { Op::RemoveUnique { r: 0, k } });
                        // (the number of entries removed is unknown to the generator; `left` is only a loop bound here)
                        left = left.saturating_sub(1);
                        if next_key + keep / 2 >= uni.len() { break; }
                    }
                }
            }
        }
    }
    for _ in 0..len {
        let r = rng.usize_below(regs);
        let k = rng.pick(&uni).clone();
        let op = match rng.weighted(&w) {
            0 => Op::Push { r, k, v: gen_v(rng, 0) },
            1 => Op::PushEntry { r, k, v: gen_v(rng, 0) },
            2 => Op::PushFront { r, k, v: gen_v(rng, 0) },
            3 => Op::PushEntryFront { r, k, v: gen_v(rng, 0) },
            4 => Op::Insert { r, k, v: gen_v(rng, 0), c: gen_cancel(rng) },
            5 => Op::InsertFront { r, k, v: gen_v(rng, 0), c: gen_cancel(rng) },
            6 => Op::Remove { r, k, c: gen_cancel(rng) },
            7 => Op::RemoveAt { r, i: match rng.below(20) { 0 => *rng.pick(&[usize::MAX, usize::MAX - 1, 1usize << 63, u32::MAX as usize, u32::MAX as usize + 1, (i64::MAX as usize)]), 1..=5 => rng.usize_below(4), 6..=10 => rng.usize_below(12), 11..=15 => rng.usize_below(64), _ => rng.usize_below(700) } },
            8 => Op::RemoveUnique { r, k },
            9 => Op::Sort { r },
            10 => Op::FromVec { r, es: gen_entries(rng, &uni, 12) },
            11 => Op::FromIterEntries { r, es: gen_entries(rng, &uni, 8) },
            12 => Op::FromIterPairs { r, es: gen_entries(rng, &uni, 8) },
            13 => Op::ExtendEntries { r, es: gen_entries(rng, &uni, 8) },
            14 => Op::ExtendPairs { r, es: gen_entries(rng, &uni, 8) },
            15 => Op::ExtendFrom { r, s: rng.usize_below(REGISTERS) },
            16 => Op::IterMutSet { r, i: if rng.chance(3, 4) { rng.usize_below(10) } else { rng.usize_below(300) }, v: gen_v(rng, 0) },
            17 => Op::GetMutSet { r, k, pull: rng.usize_below(4), v: gen_v(rng, 0) },
            18 => Op::GetUniqueMutSet { r, k, v: gen_v(rng, 0) },
            19 => Op::GetOrInsertWith { r, k, v: gen_v(rng, 0) },
            20 => Op::GetMutOrInsertWith { r, k, v: gen_v(rng, 0), set: if rng.chance(1, 2) { Some(gen_v(rng, 0)) } else { None } },
            21 => Op::CloneTo { r, dst: rng.usize_below(REGISTERS), from: rng.chance(1, 2) },
            22 => Op::IntoIterRebuild { r },
            23 => Op::Fresh { r },
            24 => Op::FromParse { r, es: gen_entries(rng, &uni, 10) },
            25 => Op::ExtendPanicking { r, es: gen_entries(rng, &uni, 8), after: rng.usize_below(8), pairs: rng.chance(1, 2) },
            _ => Op::GetOrInsertPanicking { r, k, mutable: rng.chance(1, 2) },
        };
        ops.push(op);
    }
    let n = ops.len();
    let mut checkpoints: Vec<usize> = (0..rng.below(3)).map(|_| rng.usize_below(n)).collect();
    checkpoints.push(n - 1);
    checkpoints.sort(); checkpoints.dedup();
    HistSc { hash_mode, hash_seed, ops, twin_seed: rng.next_u64(), checkpoints }
}

/// Shrink candidates for histories.
pub fn hist_shrink_candidates(sc: &HistSc) -> Vec<HistSc> {
    let mut out = vec![];
    for (a, b) in crate::kernel::shrink::removal_ranges(sc.ops.len()) {
        let mut ops = sc.ops.clone(); ops.drain(a..b);
        if ops.is_empty() { continue; }
        let n = ops.len();
        let mut cps: Vec<usize> = sc.checkpoints.iter().map(|c| if *c >= b { c - (b - a) } else if *c >= a { a.saturating_sub(1) } else { *c }).map(|c| c.min(n - 1)).collect();
        cps.sort(); cps.dedup();
        out.push(HistSc { ops, checkpoints: cps, ..sc.clone() });
    }
    if sc.hash_mode != "good" { out.push(HistSc { hash_mode: "good".into(), ..sc.clone() }); }
    if sc.checkpoints.len() > 1 { out.push(HistSc { checkpoints: vec![*sc.checkpoints.last().unwrap()], ..sc.clone() }); }
    for (i, op) in sc.ops.iter().enumerate() {
        // tamer cancellation
        if let Some(c) = op.cancel() {
            if c != Cancel::EXHAUST {
                let mut ops = sc.ops.clone();
                match &mut ops[i] { Op::Insert { c, .. } | Op::InsertFront { c, .. } | Op::Remove { c, .. } => *c = Cancel::EXHAUST, _ => {} }
                out.push(HistSc { ops, ..sc.clone() });
            }
        }
        // null values
        let mut ops = sc.ops.clone();
        let mut changed = false;
        match &mut ops[i] {
            Op::Push { v, .. } | Op::PushEntry { v, .. } | Op::PushFront { v, .. } | Op::PushEntryFront { v, .. } | Op::Insert { v, .. } | Op::InsertFront { v, .. } | Op::IterMutSet { v, .. }
            | Op::GetUniqueMutSet { v, .. } | Op::GetOrInsertWith { v, .. } => { if !v.is_simple() { *v = V::Null; changed = true; } }
            Op::FromVec { es, .. } | Op::FromIterEntries { es, .. } | Op::FromIterPairs { es, .. } | Op::FromParse { es, .. } | Op::ExtendPanicking { es, .. } | Op::ExtendEntries { es, .. } | Op::ExtendPairs { es, .. } => {
                if es.len() > 8 { let h = es.len() / 2; es.truncate(h); changed = true; } else if es.len() > 1 { es.pop(); changed = true; } else if es.iter().any(|e| !e.1.is_simple()) { for e in es.iter_mut() { e.1 = V::Null; } changed = true; }
            }
            _ => {}
        }
        if changed { out.push(HistSc { ops, ..sc.clone() }); }
        if let Some(es) = op.entries() {
            if es.len() > 8 {
                let mut ops = sc.ops.clone();
                match &mut ops[i] {
                    Op::FromVec { es, .. } | Op::FromIterEntries { es, .. } | Op::FromIterPairs { es, .. } | Op::FromParse { es, .. } | Op::ExtendPanicking { es, .. } | Op::ExtendEntries { es, .. } | Op::ExtendPairs { es, .. } => { let h = es.len() / 2; es.drain(..h); }
                    _ => {}
                }
                out.push(HistSc { ops, ..sc.clone() });
            }
        }
    }
    // shorter key names: rename the i-th distinct key to a short one
    let uni = sc.universe();
    let uni = &uni[..uni.len() - 1];
    if uni.iter().any(|k| k.len() > 2) {
        let rename = |k: &str| -> String { match uni.iter().position(|u| u == k) { Some(i) => format!("{}", (b'a' + (i % 26) as u8) as char) + &if i >= 26 { (i / 26).to_string() } else { String::new() }, None => k.to_string() } };
        let mut ops = sc.ops.clone();
        for op in ops.iter_mut() {
            match op {
                Op::Push { k, .. } | Op::PushEntry { k, .. } | Op::PushFront { k, .. } | Op::PushEntryFront { k, .. } | Op::Insert { k, .. } | Op::InsertFront { k, .. } | Op::Remove { k, .. }
                | Op::RemoveUnique { k, .. } | Op::GetMutSet { k, .. } | Op::GetUniqueMutSet { k, .. } | Op::GetOrInsertWith { k, .. } | Op::GetMutOrInsertWith { k, .. } | Op::GetOrInsertPanicking { k, .. } => *k = rename(k),
                Op::FromVec { es, .. } | Op::FromIterEntries { es, .. } | Op::FromIterPairs { es, .. } | Op::FromParse { es, .. } | Op::ExtendPanicking { es, .. } | Op::ExtendEntries { es, .. } | Op::ExtendPairs { es, .. } => for e in es.iter_mut() { e.0 = rename(&e.0) },
                _ => {}
            }
        }
        out.push(HistSc { ops, ..sc.clone() });
    }
    out.retain(|c| c != sc);
    out
}
