#!/usr/bin/env bash
# Regenerate /verif/evidence/*.json from quick runs against the *clean* /repo working tree.
# (Runs of the checks against patched trees — sensitivity/run.sh, seeded/verify.sh — overwrite the evidence files.)
set -e
cd /verif
if [ -n "$(git -C /repo status --porcelain)" ]; then echo "/repo working tree is not clean"; exit 2; fi
for p in C03 C06 C07 C14; do ./check $p quick | tail -1; done
python3-vt - <<'PY'
import json, jsonschema
s = json.load(open('/root/.vp/EVIDENCE.schema.json'))
for p in ['C03', 'C06', 'C07', 'C14']:
    e = json.load(open(f'/verif/evidence/{p}.json'))
    jsonschema.validate(e, s)
    assert e['violations'] == 0 and e['tier'] == 'quick', p
    print(p, 'evidence valid:', e['coverage']['evaluations'], 'evaluations,', e['coverage']['distinct_nontrivial'], 'distinct non-trivial')
jsonschema.validate(json.load(open('/verif/MANIFEST.json')), json.load(open('/root/.vp/MANIFEST.schema.json')))
print('MANIFEST valid')
PY
