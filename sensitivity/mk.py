#!/usr/bin/env python3
"""mk.py <name> <property> <file> <old> <new>: make a one-site mutant patch against /repo HEAD (in the scratch worktree /tmp/mut)."""
import sys, subprocess, os
name, prop, file, old, new = sys.argv[1:6]
wt = '/tmp/mut'
if not os.path.isdir(wt): subprocess.run(['git', '-C', '/repo', 'worktree', 'add', '--detach', wt, 'HEAD', '-q'], check=True)  # scratch worktree (removed at the end of a session)
subprocess.run(['git', '-C', wt, 'checkout', '-q', '--', '.'], check=True)
p = os.path.join(wt, file)
s = open(p).read()
old = old.encode().decode('unicode_escape'); new = new.encode().decode('unicode_escape')
if s.count(old) != 1:
    print(f"ERROR: pattern occurs {s.count(old)} times"); sys.exit(1)
open(p, 'w').write(s.replace(old, new))
d = subprocess.run(['git', '-C', wt, 'diff', '--', 'src'], capture_output=True, text=True).stdout
out = f'/verif/sensitivity/{prop}-{name}.diff'
open(out, 'w').write(d)
subprocess.run(['git', '-C', wt, 'checkout', '-q', '--', '.'], check=True)
print('wrote', out)
