#!/usr/bin/env bash
[ -d /tmp/mut ] || git -C /repo worktree add --detach /tmp/mut HEAD -q   # scratch worktree (removed at the end of a session)
# run.sh <diff>...: for each mutant patch: does the repo's suite still pass (scratch worktree)? does the
# named property's quick check catch it (patch applied to /repo, reverted straight afterwards)?
cd /verif
for d in "$@"; do
  name=$(basename "$d" .diff); prop=${name%%-*}
  git -C /tmp/mut checkout -q -- . ; 
  if ! git -C /tmp/mut apply "$d" 2>/dev/null; then echo "$name | patch does not apply"; continue; fi
  suite=$(cd /tmp/mut && timeout 300 cargo test --workspace --no-fail-fast --offline 2>&1 | grep -E "^test result" | awk '{p+=$4; f+=$6} END {print p" passed "f" failed"}')
  build=$(cd /tmp/mut && cargo build --offline 2>&1 | grep -c "^error")
  git -C /tmp/mut checkout -q -- .
  git -C /repo apply "$d"
  t0=$(date +%s)
  out=$(./check $prop quick 2>&1); code=$?
  t1=$(date +%s)
  git -C /repo checkout -- .
  ids=$(echo "$out" | grep -E "^violation|HARNESS|regression" | sed -E 's/^violation ([a-z0-9_.]+).*/\1/' | cut -c1-60 | sort -u | tr '\n' ' ')
  echo "$name | suite: $suite (build errors $build) | check $prop quick: exit $code in $((t1-t0))s | $ids"
done
